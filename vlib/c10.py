"""C10 - symbols resolve by the documented binding rules or the build fails.
Search oracle: a reference resolver (this file) over generated symbol programs: labels, .equ (forward/backward), .set
(latest preceding assignment), .def/.undef scopes, letter-case variation of every reference; every single-symbol
deletion / duplication mutant must fail."""
import random

from . import progcheck as P, progrun

PROP = "C10"


def vary(rng, s):
    k = rng.randrange(4)
    return s.upper() if k == 0 else s.lower() if k == 1 else s.capitalize() if k == 2 else s


WRAPS = ["%s", "%s", "%s", "(%s)", "%s+0", "0+%s", "%s*1", "lwrd(%s)", "low(%s)+high(%s)*256", "%s|0", "%s^0", "-(-%s)", "~(~%s)", "%s<<0", "%s-0",
         "byte2(%s)*256+low(%s)", "exp2(0)*%s", "%s&0xffff", "LOW(%s) + HIGH(%s) * 256", "hwrd(%s)+%s", "byte3(%s)+%s", "page(%s)+%s", "!%s*0+%s",
         "lwrd((%s))", "low(-(-%s))+byte2(%s+0)*256"]


def in_context(rng, name):
    """a reference inside an expression context that leaves its value (0..65535) unchanged: every context must resolve the
    name by the same rules - and fail when the name has no definition"""
    w = rng.choice(WRAPS)
    t = w % ((name,) * w.count("%s"))
    return t if w == "%s" else "(" + t + ")"      # the caller may append "+ 1": keep the context closed


def gen_case(rng):
    """a data-only program (every item is one word, so label values are item indices) plus register-alias lines.
    -> (lines, expected code bytes or None=must fail, definitions: list of (line index, kind, name))"""
    n = rng.randrange(3, 12)
    labels = ["Lab%d" % i for i in range(rng.randrange(1, 4))]
    equs = {"Equ%d" % i: rng.randrange(0, 1000) for i in range(rng.randrange(1, 4))}
    label_pos = {l: rng.randrange(0, n) for l in labels}          # label l precedes item label_pos[l]
    equ_line = {e: rng.randrange(0, n + 1) for e in equs}         # .equ may come anywhere (forward references allowed)
    setname = "Var"
    used_equs = set()
    items = []      # (kind, payload)
    lines, defs = [], []
    cur_set = None
    words = []
    alias = None
    for i in range(n):
        for e, at in equ_line.items():
            if at == i:
                defs.append((len(lines), "equ", e))
                lines.append(".equ %s = %d" % (vary(rng, e), equs[e]))
        for l, at in label_pos.items():
            if at == i:
                defs.append((len(lines), "label", l))
                lines.append("%s:" % vary(rng, l))
        k = rng.random()
        # symbol directives take effect in whatever segment they are written: sometimes inside a .dseg / .eseg stretch
        wrap = rng.choice([None, None, None, ".dseg", ".eseg"])
        sym_lines = []
        if k < 0.2:
            cur_set = rng.randrange(0, 500) if cur_set is None else cur_set + rng.randrange(1, 9)
            sym_lines.append(".set %s = %d" % (vary(rng, setname), cur_set))
        if k < 0.35 and alias is None:
            # names a program conventionally gives to registers are ordinary names: nothing is predefined
            alias = (rng.choice(["Tmp", "Tmp", "XL", "xh", "YL", "yh", "ZL", "zh", "Acc", "SREG", "SPL", "temp1", "r_tmp", "lowreg", "PCL"]), rng.choice([16, 17, 20, 30]))
            sym_lines.append(".def %s = r%d" % (vary(rng, alias[0]), alias[1]))
        elif k < 0.45 and alias is not None:
            sym_lines.append(".undef %s" % vary(rng, alias[0]))
            alias = None
        if sym_lines and wrap:
            lines += [wrap] + sym_lines + [".cseg"]
        else:
            lines += sym_lines
        # the item: one word
        c = rng.random()
        if c < 0.3:
            l = rng.choice(labels)
            lines.append("  .dw %s" % in_context(rng, vary(rng, l)))
            words.append(("label", l))
        elif c < 0.55:
            e = rng.choice(list(equs))
            lines.append("  .dw %s + 1" % in_context(rng, vary(rng, e)))
            used_equs.add(e)
            words.append(("val", equs[e] + 1))
        elif c < 0.7 and cur_set is not None:
            lines.append("  .dw %s" % in_context(rng, vary(rng, setname)))
            words.append(("val", cur_set))
        elif c < 0.85 and alias is not None:
            lines.append("  mov %s, r1" % vary(rng, alias[0]))
            words.append(("val", 0x2C00 | (alias[1] << 4) | 1))
        else:
            lines.append("  .dw %d" % i)
            words.append(("val", i))
    for e, at in equ_line.items():
        if at == n:
            defs.append((len(lines), "equ", e))
            lines.append(".equ %s = %d" % (vary(rng, e), equs[e]))
    code = bytearray()
    for kind, v in words:
        x = label_pos[v] if kind == "label" else v
        code += (x % 65536).to_bytes(2, "little")
    used = set(v for k, v in words if k == "label") | used_equs
    return lines, bytes(code).hex(), defs, used


def set_copies(rng, n):
    """an assignment takes the VALUE its right-hand side has at that moment - a literal, another variable's name on its own,
    pc, or a computed expression alike: variables copied from each other and re-assigned afterwards (save / restore, snapshots
    of a counter), read by data words; an assignment that names nothing defined fails the build whether the variable is used or not"""
    out = [(".set a = 1\n.set b = a\n.set a = 2\n ldi r16, b\n .dw a, b\n", ("OK", "01e002000100"), "set-copy"),
           (".set v = 1\n.set saved = v\n.set v = 9\n .dw v\n.set v = saved\n .dw v\n", ("OK", "09000100"), "set-copy"),
           (" nop\n.set here = pc\n nop\n nop\n .dw here\n", ("OK", "0000000000000100"), "set-copy"),
           (" nop\n.set here = PC\n.set there = here\n.set here = 7\n nop\n .dw there, here\n", ("OK", "0000000001000700"), "set-copy"),
           (".set i = 0\n.set j = i\n.set i = i + 1\n .dw i, j\n.set j = I\n.set i = i + 1\n .dw i, j\n", ("OK", "0100000002000100"), "set-copy"),
           (".set v = nosuch\n nop\n", ("ERR",), "set-undefined-unused"),
           (".set v = 1\n.set v = nosuch\n .dw 2\n", ("ERR",), "set-undefined-unused"),
           (".set v = (nosuch)\n nop\n", ("ERR",), "set-undefined-unused"),
           # a variable's FIRST assignment that mentions the variable itself names something undefined, directly or through a
           # definition that is read late - it never reads as zero
           (".set count = count + 1\n .dw count\n", ("ERR",), "set-first-self-reference"),
           (".set count = COUNT + 1\n nop\n", ("ERR",), "set-first-self-reference"),
           (".set Level = LEVEL\n .dw level\n", ("ERR",), "set-first-self-reference"),
           (".equ next = index + 2\n.set index = next\n .dw index\n", ("ERR",), "set-first-self-reference"),
           (" nop\n.set i = low(i)\n nop\n", ("ERR",), "set-first-self-reference"),
           (".set i = 0\n.set i = i + 1\n.set I = i + 1\n .dw i\n", ("OK", "0200"), "set-self-reference-after-first")]
    names = ["x", "y", "z"]
    for _ in range(n):
        val, lines, code = {}, [], ""
        for _ in range(rng.randrange(3, 12)):
            k = rng.random()
            t = rng.choice(names)
            if k < 0.3 or not val:
                v = rng.randrange(0, 1000)
                lines.append(".set %s = %d" % (vary(rng, t), v))
                val[t] = v
            elif k < 0.6:
                f = rng.choice(list(val))
                lines.append(".set %s = %s" % (vary(rng, t), rng.choice([vary(rng, f), "(%s)" % f, " " + f + " ", f + " ; copy"])))
                val[t] = val[f]
            elif k < 0.7:
                f = rng.choice(list(val))
                d = rng.randrange(1, 9)
                lines.append(".set %s = %s + %d" % (t, vary(rng, f), d))
                val[t] = val[f] + d
            else:
                f = rng.choice(list(val))
                lines.append(" .dw " + vary(rng, f))
                code += "%02x%02x" % (val[f] % 256, val[f] // 256 % 256)
        out.append(("\n".join(lines) + "\n", ("OK", code), "set-copy-random"))
    return out


def run(res):
    vh, exe = P.base(res, PROP)
    rng = random.Random(res.seed)
    cases = []
    for _ in range(500 if res.tier == "quick" else 200000):
        lines, code, defs, used = gen_case(rng)
        cases.append(("\n".join(lines) + "\n", ("OK", code), "reference"))
        for (idx, kind, name) in defs:
            if name in used:
                cases.append(("\n".join(lines[:idx] + [""] + lines[idx + 1:]) + "\n", ("ERR",), "deleted-" + kind))
            if kind == "label":
                cases.append(("\n".join(lines[:idx] + [lines[idx], "  .dw 0", lines[idx].swapcase()] + lines[idx + 1:]) + "\n", ("ERR",), "duplicated-label"))
                seg = rng.choice([".dseg", ".eseg"])
                cases.append(("\n".join(lines[:idx + 1] + [seg, lines[idx].swapcase(), ".cseg"] + lines[idx + 1:]) + "\n", ("ERR",), "duplicated-label-other-segment"))
                cases.append(("\n".join([seg, lines[idx].swapcase(), ".cseg"] + lines) + "\n", ("ERR",), "duplicated-label-other-segment"))
    fixed = [
        (".def tmp = r16\n.undef tmp\n mov tmp, r1\n", ("ERR",), "alias-after-undef"),
        (".def tmp = r16\n mov TMP, r1\n.undef TMP\n", ("OK", "012d"), "alias-case"),
        (" .dw nowhere\n", ("ERR",), "undefined"),
    ] + [
        # no context turns an undefined name into a value: every function, unary and binary position, every place an expression stands
        (pat % ctx.replace("@", "nowhere"), ("ERR",), "undefined-in-context")
        for ctx in ("low(@)", "high(@)", "byte2(@)", "byte3(@)", "byte4(@)", "lwrd(@)", "hwrd(@)", "page(@)", "exp2(@)", "log2(@)", "LOW(@)", "-@", "~@", "!@",
                    "(@)", "@+0", "0+@", "@*0", "0*@", "@-@", "@==@", "@&0", "0&@", "@|0", "@<<0", "1<<@", "@>>1", "@/1", "1/@", "@%1", "low(high(@))",
                    "low(@+1)", "low(-@)", "-low(@)", "@<1", "@!=0", "0&&@", "1||@", "@&&0", "@||1", "(0&&@)+1", "low(1||@)", "0*@+0&&@")
        for pat in (" .dw %s\n", " ldi r16, %s\n", ".set v = %s\n .dw v\n", ".equ q = %s\n .dw q\n", ".if %s\n nop\n.endif\n nop\n", ".org %s\n nop\n",
                    " .db %s, 0\n", ".eseg\n .db %s\n", " rjmp %s\n", " lds r16, %s\n", " ldd r16, Y+%s\n", " out %s, r16\n")
    ] + [
        (" ldi r16, nowhere\n", ("ERR",), "undefined"),
        # a label in front of a directive is the location of its own line, whatever the directive then does to the location
        (" nop\nlbl: .org 0x10\n nop\n .dw lbl\n", ("OK", "0000" * 17 + "0100"), "label-on-directive-line"),
        (" nop\nlbl: .dseg\nv: .byte 1\n.cseg\n .dw lbl, v\n", ("OK", "000001006000"), "label-on-directive-line"),
        (" nop\nlbl: .eseg\n .db 1\n.cseg\n .dw lbl\n", ("OK", "00000100"), "label-on-directive-line"),
        (" nop\nlbl: .cseg\n .dw lbl\n", ("OK", "00000100"), "label-on-directive-line"),
        (" nop\nlbl: .equ a = 5\n .dw lbl, a\n", ("OK", "000001000500"), "label-on-directive-line"),
        (" nop\nlbl: .set s = 5\n .dw lbl, s\n", ("OK", "000001000500"), "label-on-directive-line"),
        (" nop\nlbl: .if 1\n nop\n.endif\n .dw lbl\n", ("OK", "000000000100"), "label-on-directive-line"),
        (" nop\nlbl: .if 0\n nop\n.endif\n .dw lbl\n", ("OK", "00000100"), "label-on-directive-line"),
        (" nop\nlbl: .message \"m\"\n .dw lbl\n", ("OK", "00000100"), "label-on-directive-line"),
        (" nop\nlbl: .macro m\n nop\n.endm\n m\n .dw lbl\n", ("OK", "000000000100"), "label-on-directive-line"),
        (" nop\nlbl: .def t = r16\n mov t, t\n .dw lbl\n", ("OK", "0000002f0100"), "label-on-directive-line"),
        (" nop\n.dseg\nlbl: .org 0x100\nv: .byte 2\n.cseg\n .dw lbl, v\n", ("OK", "000060000001"), "label-on-directive-line"),
        (".eseg\n .db 1\nlbl: .org 8\n .db 2\n.cseg\n .dw lbl\n", ("OK", "0100"), "label-on-directive-line"),
        (" nop\nlbl: .org 0x10\nlbl2: .org 0x20\n .dw lbl, lbl2\n", ("OK", "0000" * 32 + "01001000"), "label-on-directive-line"),
        # aliases are independent of each other: two names for one register, one removed, the other stays
        (".def acc = r16\n.def tmp = r16\n ldi acc, 1\n ldi tmp, 2\n", ("OK", "01e002e0"), "two-aliases-one-register"),
        (".def acc = r16\n.def tmp = r16\n.undef acc\n ldi tmp, 3\n", ("OK", "03e0"), "two-aliases-one-register"),
        (".def acc = r16\n.def tmp = r16\n.undef tmp\n ldi acc, 4\n", ("OK", "04e0"), "two-aliases-one-register"),
        (".def acc = r16\n.def tmp = r16\n.undef acc\n ldi acc, 3\n", ("ERR",), "two-aliases-one-register"),
        (".def a = r17\n.def b = r17\n.def c = r18\n.def b = r19\n mov a, c\n mov b, a\n", ("OK", "122f112f"), "two-aliases-one-register"),
        (".def lo = r24\n.def hi = r25\n.def w = r24\n adiw w, 1\n mov hi, lo\n", ("OK", "0196982f"), "two-aliases-one-register"),
        # an .equ is its definition: read at every use, where and when the use stands (pc, .set variables) - never a cached value
        (".set v = 1\n.equ e = v + 1\n .dw e\n.set v = 5\n .dw e\n", ("OK", "02000600"), "equ-over-set"),
        (".equ p = pc\n nop\n .dw p\n .dw p, p\n .dw p\n", ("OK", "00000100020002000400"), "equ-over-pc"),
        (".equ e = v * 2\n.set v = 3\n .dw e\n.set v = 4\n .dw e, low(e)\n ldi r16, e\n", ("OK", "06000800080008e0"), "equ-over-set"),
        (".equ a = b + 1\n.equ b = v\n.set v = 1\n .dw a\n.set v = 9\n .dw a\n .dw a\n", ("OK", "02000a000a00"), "equ-chain-over-set"),
    ] + [
        c for nm in ("xl", "XH", "yl", "YH", "zl", "ZH", "sreg", "SPL", "sph", "acc", "temp", "r_0", "pcl", "lo8", "__SECOND__", "__MINUTE__", "__HOUR__",
                     "__DAY__", "__MONTH__", "__YEAR__", "__CENTURY__", "__DATE__", "__TIME__", "__LINE__", "__FILE__", "__AVRASM_VERSION__", "__PART_NAME__",
                     "__CORE_VERSION__", "__FLASH_SIZE__", "RAMEND", "FLASHEND", "E2END", "SRAM_START", "PORTB", "defined", "true", "false", "NULL")
        for c in ((".def %s = r20\n mov %s, r1\n" % (nm, nm), ("OK", "412d"), "conventional-name-def"),
                  (" mov %s, r1\n" % nm, ("ERR",), "conventional-name-undefined"),
                  (" ldi r16, %s\n" % nm, ("ERR",), "conventional-name-undefined"),
                  (".def %s = r20\n.undef %s\n mov %s, r1\n" % (nm, nm.swapcase(), nm), ("ERR",), "conventional-name-undef"),
                  (".def %s = r20\n.undef %s\n.def %s = r21\n mov %s, r1\n" % (nm, nm.swapcase(), nm, nm), ("OK", "512d"), "conventional-name-redef"),
                  (".set %s = 3\n .dw %s\n" % (nm, nm.swapcase()), ("OK", "0300"), "conventional-name-set"),
                  (".equ %s = 4\n .dw %s\n" % (nm, nm), ("OK", "0400"), "conventional-name-equ"),
                  ("%s: nop\n .dw %s\n" % (nm, nm), ("OK", "00000000"), "conventional-name-label"))
    ] + [
        (".set v = 1\n .dw v\n.set V = v + 1\n .dw v\n", ("OK", "01000200"), "set-latest"),
        (" .dw v\n.set v = 1\n", ("ERR",), "set-before-assignment"),
        (" .dw fwd\n.equ fwd = 7\n", ("OK", "0700"), "equ-forward"),
        (" .dw fwd\nnop\nfwd: nop\n", ("OK", "020000000000"), "label-forward"),
        ("a: nop\nA: nop\n", ("ERR",), "duplicate-label-case"),
        (".equ k = 3\n .dw K, k\n", ("OK", "03000300"), "equ-case"),
        (".macro setit\n.set lvl = @0\n.endm\n .dw lvl\n setit 5\n", ("ERR",), "set-in-macro-used-before"),
        (".macro setit\n.set lvl = @0\n.endm\n setit 5\n .dw lvl\n setit 7\n .dw lvl\n", ("OK", "05000700"), "set-in-macro"),
        (".macro setit\n.set lvl = @0\n.endm\n ldi r16, lvl\n setit 5\n", ("ERR",), "set-in-macro-used-before"),
        (".macro mk\n.equ made = @0\n.endm\n mk 9\n .dw made\n", ("OK", "0900"), "equ-in-macro"),
        (".macro mk\nlbl_@0: nop\n.endm\n mk 1\n mk 2\n .dw lbl_1, lbl_2\n", ("OK", "0000000000000100"), "label-in-macro"),
        (".macro mk\ndup: nop\n.endm\n mk\n mk\n", ("ERR",), "duplicate-label-through-macro"),
        (".macro al\n.def mt = r20\n.endm\n al\n mov mt, r1\n", ("OK", "412d"), "def-in-macro"),
        (".macro al\n.def mt = r20\n.endm\n mov mt, r1\n al\n", ("ERR",), "def-in-macro-used-before"),
        ("lvl: nop\n.macro setit\n.set lvl = 1\n.endm\n setit\n", ("ERR",), "set-in-macro-clashes-with-label"),
        ("a: nop\n.dseg\na: .byte 1\n", ("ERR",), "duplicate-label-cseg-dseg"),
        (".dseg\nv: .byte 1\n.eseg\nV: .db 1\n", ("ERR",), "duplicate-label-dseg-eseg"),
        (".eseg\ne: .db 1\n.cseg\ne: nop\n", ("ERR",), "duplicate-label-eseg-cseg"),
        (" nop\n .dw PC, pc, Pc + 1\n", ("OK", "0000010001000200"), "pc-case"),
        (" rjmp PC\n rjmp pc\n", ("OK", "ffcfffcf"), "pc-case"),
        (".def tmp = r16\n.dseg\n.undef tmp\n.cseg\n mov tmp, r1\n", ("ERR",), "undef-in-dseg"),
        (".set v = 1\n.dseg\n.set v = 2\n.cseg\n .dw v\n", ("OK", "0200"), "set-in-dseg"),
        (".eseg\n.def cnt = r20\n.cseg\n mov cnt, r1\n", ("OK", "412d"), "def-in-eseg"),
    ]
    cases += fixed
    cases += set_copies(rng, 80 if res.tier == "quick" else 20000)
    texts = [c[0] for c in cases]
    obs = P.correspond(res, vh, exe, texts, "symbol programs and their deletion/duplication mutants")
    dist = {}
    for text, exp, kind in cases:
        dist[kind] = dist.get(kind, 0) + 1
        a = progrun.parse_obs(obs[text][0])
        if exp[0] == "ERR":
            if a["kind"] != "ERR":
                P.fail(res, "builder::build_str", text, "a failed build (%s)" % kind, obs[text][0][:100], "accepted:" + kind)
        elif a["kind"] != "OK" or a["code"] != exp[1]:
            P.fail(res, "builder::build_str", text, "code " + exp[1], obs[text][0][:120], "value:" + kind)
    res.extra["distribution"].update({"case:" + k: v for k, v in dist.items()})
    res.extra["exhaustive"] = False
    res.rule = ("word-table programs (every item one word, so a label's value is its item index) with labels, .equ placed before and "
                "after their uses, a .set variable re-assigned along the way, a .def alias with .undef, every definition and reference in a "
                "random letter case; oracle: reference resolver in vlib/c10.py; plus every single-definition deletion (must fail when the "
                "name is referenced) and label duplication in another letter case (must fail)")
    res.samples = [dict(source=c[0], expected=c[1], kind=c[2], observed=obs[c[0]][0][:60]) for c in cases[:2] + fixed[:2]]
    res.assume = ["names are unique across labels/.equ/.set/.def modulo case (cross-kind clashes are outside the property)"]


match_known = P.match_known


def replay(path):
    return P.replay_by_rerun(PROP, path)
