(** Lifting of the finite sweeps of EncCheck to universally quantified statements. *)
From Coq Require Import List NArith ZArith Bool String Lia ZifyBool.
Import ListNotations.
Require Import AvraV.Model.Base AvraV.Model.Ast AvraV.Model.Encode AvraV.Spec.Isa AvraV.Proofs.EncCheck.
Local Open Scope Z_scope.

Lemma In_zrange n : forall a x, a <= x < a + Z.of_nat n -> In x (zrange n a).
Proof.
  induction n as [|n IH]; intros a x H; cbn [zrange].
  - lia.
  - destruct (Z.eq_dec a x) as [->|Hne]; [left; reflexivity | right; apply IH; lia].
Qed.

Lemma idxf_eqb_eq f g : idxf_eqb f g = true -> f = g.
Proof. destruct f, g; cbn; congruence. Qed.

Definition small_op (p : opspec) : bool := match p with PExp _ k => small_kind k | _ => true end.

Lemma pow_half bits : 0 <= bits - 1 -> 2 ^ bits = 2 * 2 ^ (bits - 1).
Proof. intros H. replace bits with (Z.succ (bits - 1)) at 1 by lia. apply Z.pow_succ_r; exact H. Qed.

Lemma enum_op_complete p w r : enc_op p w = Some r -> small_op p = true -> In w (enum_op p).
Proof.
  intros He Hs. destruct p as [l c | l k | f | y].
  - (* register *)
    destruct w as [n | | | |]; try discriminate.
    cbn [enum_op]. apply filter_In. split.
    + apply in_map. apply In_zrange.
      cbn [enc_op] in He. destruct c; cbn [reg_field] in He;
        match type of He with context [if ?b then _ else _] => destruct b eqn:E; [|discriminate] end; lia.
    + rewrite He. reflexivity.
  - destruct w as [| v | | |]; try (destruct k; discriminate).
    destruct k as [| bits | bits | hb |]; cbn [enc_op enum_op] in *.
    + destruct ((-128 <=? v) && (v <=? 255)) eqn:E; [|discriminate]. apply in_map, In_zrange. lia.
    + destruct ((0 <=? v) && (v <? 2 ^ bits)) eqn:E; [|discriminate]. apply in_map, In_zrange.
      assert (0 <= 2 ^ bits) by (apply Z.lt_le_incl; lia). rewrite Z2Nat.id by lia. lia.
    + destruct ((- 2 ^ (bits - 1) <=? v) && (v <? 2 ^ (bits - 1))) eqn:E; [|discriminate]. apply in_map, In_zrange.
      destruct (Z.lt_ge_cases (bits - 1) 0) as [Hneg | Hpos].
      * rewrite (Z.pow_neg_r 2 (bits - 1)) in E by lia. lia.
      * rewrite (pow_half bits Hpos). assert (0 < 2 ^ (bits - 1)) by (apply Z.pow_pos_nonneg; lia).
        rewrite Z2Nat.id by lia. lia.
    + cbn in Hs. discriminate.
    + destruct ((64 <=? v) && (v <=? 191)) eqn:E; [|discriminate]. apply in_map, In_zrange. lia.
  - destruct w as [| | g | |]; try discriminate. cbn [enc_op] in He.
    destruct (idxf_eqb f g) eqn:E; [|discriminate]. apply idxf_eqb_eq in E. subst. left. reflexivity.
  - destruct w as [| | | y' q |]; try discriminate. cbn [enc_op enum_op] in *.
    destruct (Bool.eqb y y' && (0 <=? q) && (q <=? 63)) eqn:E; [|discriminate].
    assert (y = y') by (apply eqb_prop; lia). subst. apply in_map, In_zrange. lia.
Qed.

Lemma enum_ops_complete ps : forall ws r, enc_ops ps ws = Some r -> forallb small_op ps = true -> In ws (enum_ops ps).
Proof.
  induction ps as [|p ps IH]; intros ws r He Hs.
  - destruct ws; [left; reflexivity | discriminate].
  - destruct ws as [|w ws]; [discriminate|]. cbn [enc_ops] in He. cbn [forallb] in Hs.
    apply andb_prop in Hs. destruct Hs as [Hp Hps].
    destruct (enc_op p w) as [[a x]|] eqn:E1; [|discriminate].
    destruct (enc_ops ps ws) as [[b y]|] eqn:E2; [|discriminate].
    cbn [enum_ops]. apply in_flat_map. exists w. split.
    + eapply enum_op_complete; eauto.
    + apply in_map. eapply IH; eauto.
Qed.

Lemma fits_enc ps ws : fits ps ws = true -> exists r, enc_ops ps ws = Some r.
Proof. unfold fits. destruct (enc_ops ps ws); [eauto | discriminate]. Qed.

Lemma In_core_list c s : core_ok c s = true -> In c (core_list s).
Proof. destruct c, s; cbn; intros; try discriminate; auto. Qed.

(** a spelling that passes the sweep is correct on every operand tuple it admits *)
Lemma check_sp_sound s : check_sp s = true -> small_sp s = true ->
  forall c ws, core_ok c (sp_core s) = true -> fits (sp_ops s) ws = true -> ok_at c (sp_name s) ws = true.
Proof.
  intros Hc Hs c ws Hcore Hf. unfold check_sp in Hc. rewrite forallb_forall in Hc.
  specialize (Hc c (In_core_list _ _ Hcore)). rewrite forallb_forall in Hc. apply Hc.
  destruct (fits_enc _ _ Hf) as [r Hr]. eapply enum_ops_complete; eauto.
Qed.
