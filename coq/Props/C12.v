(** C12 - memory capacity limits of the selected device are enforced exactly (examples; theorems follow). *)
From Coq Require Import List ZArith NArith String.
Import ListNotations.
Require Import AvraV.Model.Base AvraV.Model.Ast AvraV.Model.Passes.
Definition builds (src : string) : bool := is_ok (build_str 200 (list_ascii_of_string src)).
Definition nl := String (Ascii.ascii_of_N 10) EmptyString.
Example C12_examples :
  builds (".device ATtiny13" ++ nl ++ ".org 511" ++ nl ++ "nop" ++ nl) = true /\
  builds (".device ATtiny13" ++ nl ++ ".org 512" ++ nl ++ "nop" ++ nl) = false /\
  builds (".device ATtiny13" ++ nl ++ ".dseg" ++ nl ++ ".byte 64" ++ nl) = true /\
  builds (".device ATtiny13" ++ nl ++ ".dseg" ++ nl ++ ".byte 65" ++ nl) = false.
Proof. vm_compute. repeat split; reflexivity. Qed.
