"""C01 - every valid instruction assembles to its exact AVR ISA machine code."""
import random

from . import encgen, encrun, gen

PROP = "C01"


def cases(tier, seed):
    rng = random.Random(seed)
    cs = encgen.legal("F") + encgen.addresses("F", rng, 4000 if tier == "quick" else 200000)
    cs += encgen.addresses("R", rng, 500)
    cs += encgen.relative("F")
    if tier != "quick":
        cs += encgen.legal("R") + encgen.relative("R")
    return cs


def run(res):
    encrun.standard_run(
        res, PROP, lambda vh: cases(res.tier, res.seed) + encgen.per_device(gen.read_devices(vh), res.tier != "quick"), keep=lambda r: r[3] != "NONE", what="legal-operand",
        rule=("cases = (core, pc, mnemonic, operand tuple) enumerated by vlib/encgen.py legal()+addresses()+relative(), restricted to "
              "tuples Spec/Isa.expect_at can encode; each is run through instruction::process of /repo, the extracted Coq model and "
              "the ISA table; plus per_device(): under EVERY device row of the table, every mnemonic and the operands at which a device figure "
              "(flash words/bytes, RAM start/end, EEPROM size) could be mistaken for a limit of the instruction; distinct = distinct case "
              "text, all are non-trivial (an instruction is encoded)"),
        exhaustive_note=("complete for every one-word form (all registers, immediates, displacements, ports, bits, branch and "
                         "rjmp/rcall offsets); jmp/call: all 64 high parts x 8 boundary low parts + random; lds/sts: all registers x "
                         "boundary + random addresses; reduced-core lds/sts complete"),
        assume=["Spec/Isa.v is a transcription of the AVR Instruction Set Manual (DESIGN.md section 10)",
                "operands in this interface are literals and registers; symbolic operands are covered by the theorem's "
                "hypothesis on the accessor views and by the program-level checks"])


match_known = encrun.match_known


def replay(path):
    return encrun.replay(PROP, path)
