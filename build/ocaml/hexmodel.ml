
type nat =
| O
| S of nat

(** val fst : ('a1 * 'a2) -> 'a1 **)

let fst = function
| (x, _) -> x

(** val snd : ('a1 * 'a2) -> 'a2 **)

let snd = function
| (_, y) -> y

(** val length : 'a1 list -> nat **)

let rec length = function
| [] -> O
| _ :: l' -> S (length l')

(** val app : 'a1 list -> 'a1 list -> 'a1 list **)

let rec app l m =
  match l with
  | [] -> m
  | a :: l1 -> a :: (app l1 m)

type comparison =
| Eq
| Lt
| Gt

module Coq__1 = struct
 (** val add : nat -> nat -> nat **)
 let rec add n0 m =
   match n0 with
   | O -> m
   | S p -> S (add p m)
end
include Coq__1

type positive =
| XI of positive
| XO of positive
| XH

type n =
| N0
| Npos of positive

module Pos =
 struct
  type mask =
  | IsNul
  | IsPos of positive
  | IsNeg
 end

module Coq_Pos =
 struct
  (** val succ : positive -> positive **)

  let rec succ = function
  | XI p -> XO (succ p)
  | XO p -> XI p
  | XH -> XO XH

  (** val add : positive -> positive -> positive **)

  let rec add x y =
    match x with
    | XI p ->
      (match y with
       | XI q -> XO (add_carry p q)
       | XO q -> XI (add p q)
       | XH -> XO (succ p))
    | XO p ->
      (match y with
       | XI q -> XI (add p q)
       | XO q -> XO (add p q)
       | XH -> XI p)
    | XH -> (match y with
             | XI q -> XO (succ q)
             | XO q -> XI q
             | XH -> XO XH)

  (** val add_carry : positive -> positive -> positive **)

  and add_carry x y =
    match x with
    | XI p ->
      (match y with
       | XI q -> XI (add_carry p q)
       | XO q -> XO (add_carry p q)
       | XH -> XI (succ p))
    | XO p ->
      (match y with
       | XI q -> XO (add_carry p q)
       | XO q -> XI (add p q)
       | XH -> XO (succ p))
    | XH ->
      (match y with
       | XI q -> XI (succ q)
       | XO q -> XO (succ q)
       | XH -> XI XH)

  (** val pred_double : positive -> positive **)

  let rec pred_double = function
  | XI p -> XI (XO p)
  | XO p -> XI (pred_double p)
  | XH -> XH

  type mask = Pos.mask =
  | IsNul
  | IsPos of positive
  | IsNeg

  (** val succ_double_mask : mask -> mask **)

  let succ_double_mask = function
  | IsNul -> IsPos XH
  | IsPos p -> IsPos (XI p)
  | IsNeg -> IsNeg

  (** val double_mask : mask -> mask **)

  let double_mask = function
  | IsPos p -> IsPos (XO p)
  | x0 -> x0

  (** val double_pred_mask : positive -> mask **)

  let double_pred_mask = function
  | XI p -> IsPos (XO (XO p))
  | XO p -> IsPos (XO (pred_double p))
  | XH -> IsNul

  (** val sub_mask : positive -> positive -> mask **)

  let rec sub_mask x y =
    match x with
    | XI p ->
      (match y with
       | XI q -> double_mask (sub_mask p q)
       | XO q -> succ_double_mask (sub_mask p q)
       | XH -> IsPos (XO p))
    | XO p ->
      (match y with
       | XI q -> succ_double_mask (sub_mask_carry p q)
       | XO q -> double_mask (sub_mask p q)
       | XH -> IsPos (pred_double p))
    | XH -> (match y with
             | XH -> IsNul
             | _ -> IsNeg)

  (** val sub_mask_carry : positive -> positive -> mask **)

  and sub_mask_carry x y =
    match x with
    | XI p ->
      (match y with
       | XI q -> succ_double_mask (sub_mask_carry p q)
       | XO q -> double_mask (sub_mask p q)
       | XH -> IsPos (pred_double p))
    | XO p ->
      (match y with
       | XI q -> double_mask (sub_mask_carry p q)
       | XO q -> succ_double_mask (sub_mask_carry p q)
       | XH -> double_pred_mask p)
    | XH -> IsNeg

  (** val mul : positive -> positive -> positive **)

  let rec mul x y =
    match x with
    | XI p -> add y (XO (mul p y))
    | XO p -> XO (mul p y)
    | XH -> y

  (** val compare_cont : comparison -> positive -> positive -> comparison **)

  let rec compare_cont r x y =
    match x with
    | XI p ->
      (match y with
       | XI q -> compare_cont r p q
       | XO q -> compare_cont Gt p q
       | XH -> Gt)
    | XO p ->
      (match y with
       | XI q -> compare_cont Lt p q
       | XO q -> compare_cont r p q
       | XH -> Gt)
    | XH -> (match y with
             | XH -> r
             | _ -> Lt)

  (** val compare : positive -> positive -> comparison **)

  let compare =
    compare_cont Eq

  (** val eqb : positive -> positive -> bool **)

  let rec eqb p q =
    match p with
    | XI p0 -> (match q with
                | XI q0 -> eqb p0 q0
                | _ -> false)
    | XO p0 -> (match q with
                | XO q0 -> eqb p0 q0
                | _ -> false)
    | XH -> (match q with
             | XH -> true
             | _ -> false)

  (** val iter_op : ('a1 -> 'a1 -> 'a1) -> positive -> 'a1 -> 'a1 **)

  let rec iter_op op p a =
    match p with
    | XI p0 -> op a (iter_op op p0 (op a a))
    | XO p0 -> iter_op op p0 (op a a)
    | XH -> a

  (** val to_nat : positive -> nat **)

  let to_nat x =
    iter_op Coq__1.add x (S O)

  (** val of_succ_nat : nat -> positive **)

  let rec of_succ_nat = function
  | O -> XH
  | S x -> succ (of_succ_nat x)
 end

module N =
 struct
  (** val succ_double : n -> n **)

  let succ_double = function
  | N0 -> Npos XH
  | Npos p -> Npos (XI p)

  (** val double : n -> n **)

  let double = function
  | N0 -> N0
  | Npos p -> Npos (XO p)

  (** val add : n -> n -> n **)

  let add n0 m =
    match n0 with
    | N0 -> m
    | Npos p -> (match m with
                 | N0 -> n0
                 | Npos q -> Npos (Coq_Pos.add p q))

  (** val sub : n -> n -> n **)

  let sub n0 m =
    match n0 with
    | N0 -> N0
    | Npos n' ->
      (match m with
       | N0 -> n0
       | Npos m' ->
         (match Coq_Pos.sub_mask n' m' with
          | Coq_Pos.IsPos p -> Npos p
          | _ -> N0))

  (** val mul : n -> n -> n **)

  let mul n0 m =
    match n0 with
    | N0 -> N0
    | Npos p -> (match m with
                 | N0 -> N0
                 | Npos q -> Npos (Coq_Pos.mul p q))

  (** val compare : n -> n -> comparison **)

  let compare n0 m =
    match n0 with
    | N0 -> (match m with
             | N0 -> Eq
             | Npos _ -> Lt)
    | Npos n' -> (match m with
                  | N0 -> Gt
                  | Npos m' -> Coq_Pos.compare n' m')

  (** val eqb : n -> n -> bool **)

  let eqb n0 m =
    match n0 with
    | N0 -> (match m with
             | N0 -> true
             | Npos _ -> false)
    | Npos p -> (match m with
                 | N0 -> false
                 | Npos q -> Coq_Pos.eqb p q)

  (** val leb : n -> n -> bool **)

  let leb x y =
    match compare x y with
    | Gt -> false
    | _ -> true

  (** val ltb : n -> n -> bool **)

  let ltb x y =
    match compare x y with
    | Lt -> true
    | _ -> false

  (** val pos_div_eucl : positive -> n -> n * n **)

  let rec pos_div_eucl a b =
    match a with
    | XI a' ->
      let (q, r) = pos_div_eucl a' b in
      let r' = succ_double r in
      if leb b r' then ((succ_double q), (sub r' b)) else ((double q), r')
    | XO a' ->
      let (q, r) = pos_div_eucl a' b in
      let r' = double r in
      if leb b r' then ((succ_double q), (sub r' b)) else ((double q), r')
    | XH ->
      (match b with
       | N0 -> (N0, (Npos XH))
       | Npos p -> (match p with
                    | XH -> ((Npos XH), N0)
                    | _ -> (N0, (Npos XH))))

  (** val div_eucl : n -> n -> n * n **)

  let div_eucl a b =
    match a with
    | N0 -> (N0, N0)
    | Npos na -> (match b with
                  | N0 -> (N0, a)
                  | Npos _ -> pos_div_eucl na b)

  (** val div : n -> n -> n **)

  let div a b =
    fst (div_eucl a b)

  (** val modulo : n -> n -> n **)

  let modulo a b =
    snd (div_eucl a b)

  (** val to_nat : n -> nat **)

  let to_nat = function
  | N0 -> O
  | Npos p -> Coq_Pos.to_nat p

  (** val of_nat : nat -> n **)

  let of_nat = function
  | O -> N0
  | S n' -> Npos (Coq_Pos.of_succ_nat n')
 end

(** val concat : 'a1 list list -> 'a1 list **)

let rec concat = function
| [] -> []
| x :: l0 -> app x (concat l0)

(** val map : ('a1 -> 'a2) -> 'a1 list -> 'a2 list **)

let rec map f = function
| [] -> []
| a :: t -> (f a) :: (map f t)

(** val firstn : nat -> 'a1 list -> 'a1 list **)

let rec firstn n0 l =
  match n0 with
  | O -> []
  | S n1 -> (match l with
             | [] -> []
             | a :: l0 -> a :: (firstn n1 l0))

(** val skipn : nat -> 'a1 list -> 'a1 list **)

let rec skipn n0 l =
  match n0 with
  | O -> l
  | S n1 -> (match l with
             | [] -> []
             | _ :: l0 -> skipn n1 l0)

(** val hexd : n -> n **)

let hexd n0 =
  if N.ltb n0 (Npos (XO (XI (XO XH))))
  then N.add (Npos (XO (XO (XO (XO (XI XH)))))) n0
  else N.add (Npos (XI (XI (XI (XO (XI XH)))))) n0

(** val hex2 : n -> n list **)

let hex2 b =
  (hexd (N.div b (Npos (XO (XO (XO (XO XH))))))) :: ((hexd
                                                       (N.modulo b (Npos (XO
                                                         (XO (XO (XO XH))))))) :: [])

(** val sumN : n list -> n **)

let rec sumN = function
| [] -> N0
| x :: r -> N.add x (sumN r)

(** val cks : n list -> n **)

let cks body =
  N.modulo
    (N.sub (Npos (XO (XO (XO (XO (XO (XO (XO (XO XH)))))))))
      (N.modulo (sumN body) (Npos (XO (XO (XO (XO (XO (XO (XO (XO XH)))))))))))
    (Npos (XO (XO (XO (XO (XO (XO (XO (XO XH)))))))))

(** val body_of : n -> n -> n list -> n list **)

let body_of ty off data =
  app
    ((N.of_nat (length data)) :: ((N.div off (Npos (XO (XO (XO (XO (XO (XO
                                    (XO (XO XH)))))))))) :: ((N.modulo off
                                                               (Npos (XO (XO
                                                               (XO (XO (XO
                                                               (XO (XO (XO
                                                               XH)))))))))) :: (ty :: []))))
    data

(** val record : n -> n -> n list -> n list **)

let record ty off data =
  (Npos (XO (XI (XO (XI (XI
    XH)))))) :: (app
                  (concat
                    (map hex2
                      (app (body_of ty off data)
                        ((cks (body_of ty off data)) :: [])))) ((Npos (XI (XO
                  (XI XH)))) :: ((Npos (XO (XI (XO XH)))) :: [])))

(** val chunks : nat -> n list -> n list list **)

let rec chunks fuel l =
  match fuel with
  | O -> []
  | S f ->
    (match l with
     | [] -> []
     | _ :: _ ->
       (firstn (S (S (S (S (S (S (S (S (S (S (S (S (S (S (S (S
         O)))))))))))))))) l) :: (chunks f
                                   (skipn (S (S (S (S (S (S (S (S (S (S (S (S
                                     (S (S (S (S O)))))))))))))))) l)))

(** val data_records : n -> n list list -> n list **)

let rec data_records a = function
| [] -> []
| c :: tl ->
  app
    (if (&&) (N.ltb N0 a)
          (N.eqb
            (N.modulo a (Npos (XO (XO (XO (XO (XO (XO (XO (XO (XO (XO (XO (XO
              (XO (XO (XO (XO XH)))))))))))))))))) N0)
     then record (Npos (XO (XO XH))) N0
            ((N.div
               (N.div a (Npos (XO (XO (XO (XO (XO (XO (XO (XO (XO (XO (XO (XO
                 (XO (XO (XO (XO XH)))))))))))))))))) (Npos (XO (XO (XO (XO
               (XO (XO (XO (XO XH)))))))))) :: ((N.modulo
                                                  (N.div a (Npos (XO (XO (XO
                                                    (XO (XO (XO (XO (XO (XO
                                                    (XO (XO (XO (XO (XO (XO
                                                    (XO XH))))))))))))))))))
                                                  (Npos (XO (XO (XO (XO (XO
                                                  (XO (XO (XO XH)))))))))) :: []))
     else [])
    (app
      (record N0
        (N.modulo a (Npos (XO (XO (XO (XO (XO (XO (XO (XO (XO (XO (XO (XO (XO
          (XO (XO (XO XH)))))))))))))))))) c)
      (data_records (N.add a (Npos (XO (XO (XO (XO XH)))))) tl))

(** val write : n list -> n list **)

let write img =
  app
    (match img with
     | [] -> []
     | _ :: _ ->
       app (record (Npos (XO XH)) N0 (N0 :: (N0 :: [])))
         (data_records N0 (chunks (length img) img)))
    (app (record (Npos XH) N0 []) ((Npos (XI (XO (XI XH)))) :: ((Npos (XO (XI
      (XO XH)))) :: [])))

(** val unhex : n -> n option **)

let unhex c =
  if (&&) (N.leb (Npos (XO (XO (XO (XO (XI XH)))))) c)
       (N.leb c (Npos (XI (XO (XO (XI (XI XH)))))))
  then Some (N.sub c (Npos (XO (XO (XO (XO (XI XH)))))))
  else if (&&) (N.leb (Npos (XI (XO (XO (XO (XO (XO XH))))))) c)
            (N.leb c (Npos (XO (XI (XI (XO (XO (XO XH))))))))
       then Some (N.sub c (Npos (XI (XI (XI (XO (XI XH)))))))
       else None

(** val read_byte : n list -> (n * n list) option **)

let read_byte = function
| [] -> None
| h :: l0 ->
  (match l0 with
   | [] -> None
   | l :: r ->
     (match unhex h with
      | Some a ->
        (match unhex l with
         | Some b ->
           Some ((N.add (N.mul a (Npos (XO (XO (XO (XO XH)))))) b), r)
         | None -> None)
      | None -> None))

(** val read_bytes : nat -> n list -> (n list * n list) option **)

let rec read_bytes n0 s =
  match n0 with
  | O -> Some ([], s)
  | S m ->
    (match read_byte s with
     | Some p ->
       let (b, r) = p in
       (match read_bytes m r with
        | Some p0 -> let (bs, r') = p0 in Some ((b :: bs), r')
        | None -> None)
     | None -> None)

(** val sum : n list -> n **)

let rec sum = function
| [] -> N0
| x :: r -> N.add x (sum r)

(** val parse_record : n list -> (((n * n) * n list) * n list) option **)

let parse_record = function
| [] -> None
| n0 :: r0 ->
  (match n0 with
   | N0 -> None
   | Npos p ->
     (match p with
      | XO p0 ->
        (match p0 with
         | XI p1 ->
           (match p1 with
            | XO p2 ->
              (match p2 with
               | XI p3 ->
                 (match p3 with
                  | XI p4 ->
                    (match p4 with
                     | XH ->
                       (match read_byte r0 with
                        | Some p5 ->
                          let (ll, r1) = p5 in
                          (match read_byte r1 with
                           | Some p6 ->
                             let (ah, r2) = p6 in
                             (match read_byte r2 with
                              | Some p7 ->
                                let (al, r3) = p7 in
                                (match read_byte r3 with
                                 | Some p8 ->
                                   let (ty, r4) = p8 in
                                   (match read_bytes (N.to_nat ll) r4 with
                                    | Some p9 ->
                                      let (data, r5) = p9 in
                                      (match read_byte r5 with
                                       | Some p10 ->
                                         let (cc, r6) = p10 in
                                         if N.eqb
                                              (N.modulo
                                                (N.add
                                                  (N.add
                                                    (N.add
                                                      (N.add (N.add ll ah) al)
                                                      ty) (sum data)) cc)
                                                (Npos (XO (XO (XO (XO (XO (XO
                                                (XO (XO XH)))))))))) N0
                                         then Some (((ty,
                                                (N.add
                                                  (N.mul ah (Npos (XO (XO (XO
                                                    (XO (XO (XO (XO (XO
                                                    XH)))))))))) al)), data),
                                                r6)
                                         else None
                                       | None -> None)
                                    | None -> None)
                                 | None -> None)
                              | None -> None)
                           | None -> None)
                        | None -> None)
                     | _ -> None)
                  | _ -> None)
               | _ -> None)
            | _ -> None)
         | _ -> None)
      | _ -> None))

(** val skip_eol : n list -> n list **)

let rec skip_eol s = match s with
| [] -> []
| c :: r ->
  if (||) (N.eqb c (Npos (XI (XO (XI XH)))))
       (N.eqb c (Npos (XO (XI (XO XH)))))
  then skip_eol r
  else s

(** val addrs : n -> n list -> (n * n) list **)

let rec addrs a = function
| [] -> []
| b :: r -> (a, b) :: (addrs (N.add a (Npos XH)) r)

(** val read_body :
    (n -> n list -> (n * n) list option) -> n -> n list -> (n * n) list option **)

let read_body rd base s =
  match parse_record (skip_eol s) with
  | Some p ->
    let (p0, r) = p in
    let (p1, data) = p0 in
    let (ty, off) = p1 in
    if N.eqb ty N0
    then (match rd base r with
          | Some l -> Some (app (addrs (N.add base off) data) l)
          | None -> None)
    else if N.eqb ty (Npos XH)
         then (match data with
               | [] -> (match skip_eol r with
                        | [] -> Some []
                        | _ :: _ -> None)
               | _ :: _ -> None)
         else if N.eqb ty (Npos (XO XH))
              then (match data with
                    | [] -> None
                    | hi :: l ->
                      (match l with
                       | [] -> None
                       | lo :: l0 ->
                         (match l0 with
                          | [] ->
                            rd
                              (N.mul
                                (N.add
                                  (N.mul hi (Npos (XO (XO (XO (XO (XO (XO (XO
                                    (XO XH)))))))))) lo) (Npos (XO (XO (XO
                                (XO XH)))))) r
                          | _ :: _ -> None)))
              else if N.eqb ty (Npos (XO (XO XH)))
                   then (match data with
                         | [] -> None
                         | hi :: l ->
                           (match l with
                            | [] -> None
                            | lo :: l0 ->
                              (match l0 with
                               | [] ->
                                 rd
                                   (N.mul
                                     (N.add
                                       (N.mul hi (Npos (XO (XO (XO (XO (XO
                                         (XO (XO (XO XH)))))))))) lo) (Npos
                                     (XO (XO (XO (XO (XO (XO (XO (XO (XO (XO
                                     (XO (XO (XO (XO (XO (XO
                                     XH)))))))))))))))))) r
                               | _ :: _ -> None)))
                   else None
  | None -> None

(** val read : nat -> n -> n list -> (n * n) list option **)

let rec read fuel base s =
  match fuel with
  | O -> None
  | S f -> read_body (read f) base s

(** val read_file : n list -> (n * n) list option **)

let read_file s =
  read (S (length s)) N0 s

(** val pair_eqb : (n * n) -> (n * n) -> bool **)

let pair_eqb x y =
  (&&) (N.eqb (fst x) (fst y)) (N.eqb (snd x) (snd y))

(** val pairs_eqb : (n * n) list -> (n * n) list -> bool **)

let rec pairs_eqb a b =
  match a with
  | [] -> (match b with
           | [] -> true
           | _ :: _ -> false)
  | x :: a' ->
    (match b with
     | [] -> false
     | y :: b' -> (&&) (pair_eqb x y) (pairs_eqb a' b'))

(** val holds_C07 : n list -> n list -> bool **)

let holds_C07 img file =
  match read_file file with
  | Some l -> pairs_eqb l (addrs N0 img)
  | None -> false
