"""Shared machinery of /verif/check: building the harness and the Coq development from /repo's
working tree, compiling generated case files, hygiene gates, known findings, evidence."""
import concurrent.futures as cf
import fcntl
import hashlib
import json
import os
import re
import subprocess
import sys
import time

VERIF = os.path.dirname(os.path.dirname(os.path.abspath(__file__)))
REPO = "/repo"
COQ = os.path.join(VERIF, "coq")
BUILD = os.path.join(VERIF, "build")
HARNESS = os.path.join(VERIF, "harness")
EVID = os.path.join(VERIF, "evidence")
REPLAY = os.path.join(EVID, "replay")
NCPU = os.cpu_count() or 4

ENV = dict(os.environ)
ENV.update({"CARGO_NET_OFFLINE": "true", "GOPROXY": "off", "PIP_NO_INDEX": "1"})

TRUSTED_BASE = [
    "Coq 8.16.1 kernel and its VM (vm_compute); native_compute is not used",
    "Print Assumptions of every property theorem must be 'Closed under the global context' (checked on each run)",
    "Spec/*.v: hand-written specifications (ISA table, operator table, Intel HEX format, feature flags)",
    "Model/*.v: hand-written model of the Rust code, tied to /repo by correspondence runs against the library built from the working tree",
    "harness/ (Rust, links the real avra_lib), vlib/ (Python generators, canonicalisation)",
    "rustc/cargo/std and the crates avra-rs depends on (peg, ihex, strum, ...) as exercised through the built library",
]


class Lock:
    """serialises cargo/make steps when several checks run at once"""

    def __init__(self, name="build"):
        os.makedirs(BUILD, exist_ok=True)
        self.path = os.path.join(BUILD, "." + name + ".lock")

    def __enter__(self):
        self.f = open(self.path, "w")
        fcntl.flock(self.f, fcntl.LOCK_EX)
        return self

    def __exit__(self, *a):
        fcntl.flock(self.f, fcntl.LOCK_UN)
        self.f.close()


def run(cmd, timeout=1200, cwd=None, input=None, env=None, shell=False):
    p = subprocess.run(cmd, cwd=cwd, input=input, env=env or ENV, shell=shell, timeout=timeout,
                       stdout=subprocess.PIPE, stderr=subprocess.STDOUT, text=True, errors="replace")
    return p.returncode, p.stdout


def build_harness(profile="debug"):
    """cargo-build the harness (and with it avra_lib) from /repo's current working tree"""
    with Lock("cargo"):
        lock = os.path.join(HARNESS, "Cargo.lock")
        if not os.path.exists(lock):
            subprocess.run(["cp", os.path.join(REPO, "Cargo.lock"), lock], check=True)
        cmd = ["cargo", "build", "--offline", "--quiet"] + (["--release"] if profile == "release" else [])
        rc, out = run(cmd, cwd=HARNESS, timeout=1500)
        if rc != 0:
            raise RuntimeError("harness build failed (does /repo still compile?)\n" + out[-4000:])
    return os.path.join(BUILD, "target", profile, "vh")


def build_repo_bin():
    """the command line tool itself, built from the working tree into our own target directory"""
    with Lock("cargo"):
        rc, out = run(["cargo", "build", "--offline", "--quiet", "--bin", "avra-rs", "--target-dir",
                       os.path.join(BUILD, "target-repo")], cwd=REPO, timeout=1500)
        if rc != 0:
            raise RuntimeError("cargo build of /repo failed\n" + out[-4000:])
    return os.path.join(BUILD, "target-repo", "debug", "avra-rs")


def vh(binary, args, input=None, timeout=900):
    rc, out = run([binary] + args, input=input, timeout=timeout)
    if rc != 0:
        raise RuntimeError("harness %s failed rc=%s\n%s" % (args, rc, out[-3000:]))
    return out


def write_if_changed(path, text):
    os.makedirs(os.path.dirname(path), exist_ok=True)
    try:
        if open(path).read() == text:
            return False
    except FileNotFoundError:
        pass
    with open(path, "w") as f:
        f.write(text)
    return True


def coq_make(targets, timeout=2400):
    """(re)build the given .vo targets of the project with their dependencies; returns (ok, log)"""
    with Lock("coq"):
        rc, out = run(["./mk.sh"], cwd=COQ)
        if rc != 0:
            return False, out
        rc, out = run(["make", "-j%d" % NCPU] + targets, cwd=COQ, timeout=timeout)
    return rc == 0, out


def coqc_file(path, timeout=900):
    t0 = time.time()
    try:
        rc, out = run(["coqc", "-q", "-noglob", "-Q", COQ, "AvraV",
                       "-w", "-notation-overridden,-deprecated-hint-without-locality", path],
                      timeout=timeout, cwd=os.path.dirname(path))
    except subprocess.TimeoutExpired:
        return path, False, "TIMEOUT after %ss" % timeout, time.time() - t0
    return path, rc == 0, out, time.time() - t0


def coqc_many(paths, timeout=900):
    """compile generated case files in parallel; returns list of (path, ok, output, seconds)"""
    with cf.ThreadPoolExecutor(max_workers=NCPU) as ex:
        return list(ex.map(lambda p: coqc_file(p, timeout), paths))


REPORT_RE = re.compile(r'Report\s+"([^"]+)"\s*(\[[^\]]*\]|nil)\s*(\[[^\]]*\]|nil)', re.S)


def parse_reports(out):
    """Report "name" [i; j] [k]  ->  {name: ([i, j], [k])}"""
    res = {}
    for m in REPORT_RE.finditer(out):
        def nums(s):
            return [int(x) for x in re.findall(r"\d+", s)]
        res[m.group(1)] = (nums(m.group(2)), nums(m.group(3)))
    return res


FORBIDDEN = re.compile(r"\b(Admitted|admit|Axiom|Axioms|Parameter|Parameters|Conjecture|Hypothesis|Variable)\b"
                       r"|Unset\s+Guard|bypass_check|type-in-type|impredicative-set|Admit\s+Obligations")


def hygiene():
    """forbidden vernacular anywhere in the development (Variable/Hypothesis are allowed inside Sections only)"""
    bad = []
    for root, _, files in os.walk(COQ):
        if "/Cases" in root:
            continue
        for fn in files:
            if not fn.endswith(".v"):
                continue
            p = os.path.join(root, fn)
            depth = 0
            in_comment = 0
            for n, line in enumerate(open(p, errors="replace"), 1):
                code = re.sub(r"\(\*.*?\*\)", "", line)
                if "(*" in code and "*)" not in code:
                    code = code.split("(*")[0]
                    in_comment += 1
                elif "*)" in code and in_comment:
                    code = code.split("*)", 1)[1]
                    in_comment -= 1
                elif in_comment:
                    continue
                if re.match(r"\s*Section\b", code):
                    depth += 1
                if re.match(r"\s*End\b", code) and depth:
                    depth -= 1
                m = FORBIDDEN.search(code)
                if m:
                    if m.group(1) in ("Variable", "Hypothesis") and depth > 0:
                        continue
                    bad.append("%s:%d: %s" % (os.path.relpath(p, VERIF), n, line.strip()))
    return bad


def assumptions(module, theorems, timeout=600):
    """Print Assumptions of each theorem, through a scratch file -> {thm: text}"""
    d = os.path.join(COQ, "Cases", "_assume")
    os.makedirs(d, exist_ok=True)
    path = os.path.join(d, module.replace(".", "_") + "_assume.v")
    body = "Require Import AvraV.%s.\n" % module
    for t in theorems:
        body += 'Goal True. idtac "BEGIN %s". Abort.\nPrint Assumptions %s.\nGoal True. idtac "END %s". Abort.\n' % (t, t, t)
    open(path, "w").write(body)
    _, ok, out, _ = coqc_file(path, timeout)
    res = {}
    for t in theorems:
        m = re.search(r"BEGIN %s\n(.*?)END %s" % (re.escape(t), re.escape(t)), out, re.S)
        res[t] = m.group(1).strip() if m else "MISSING (%s)" % out[-500:]
    return ok, res


def theorem_names(props_file):
    src = open(os.path.join(COQ, props_file)).read()
    return re.findall(r"^\s*(?:Theorem|Corollary)\s+(\w+)", src, re.M)


ALLOWED_AXIOMS = []  # none expected; any std-library axiom that appears must be named here and in DESIGN.md


def check_props(prop_id, extra_targets=()):
    """build Props/<id>.vo, run hygiene and assumption gates.
    returns dict(ok, obligations=[(name, ok, note)], log)"""
    target = "Props/%s.vo" % prop_id
    # ... and the libraries the generated case files import (a changed model file must never meet a stale one of these)
    ok, log = coq_make([target, "Model/Observe.vo", "Model/Files.vo", "Model/Hex.vo", "Spec/HexReader.vo"] + list(extra_targets))
    obligations = []
    names = theorem_names("Props/%s.v" % prop_id)
    if not ok:
        m = re.search(r'File "([^"]+)", line (\d+).*?\n(.*?)(?:\n\n|\Z)', log, re.S)
        where = "%s:%s %s" % (m.group(1), m.group(2), m.group(3)[:300]) if m else log[-600:]
        for n in names:
            obligations.append((n, False, "development does not compile: " + where))
        return dict(ok=False, obligations=obligations, log=log, broken="coq build of %s: %s" % (target, where))
    bad = hygiene()
    if bad:
        return dict(ok=False, obligations=[(n, False, "hygiene") for n in names], log="\n".join(bad),
                    broken="forbidden vernacular: " + "; ".join(bad[:5]))
    aok, ass = assumptions("Props." + prop_id, names)
    allok = aok
    for n in names:
        txt = ass.get(n, "MISSING")
        good = txt.startswith("Closed under the global context") or \
            all(any(a in ln for a in ALLOWED_AXIOMS) for ln in txt.splitlines() if ln.strip() and not ln.startswith("Axioms:"))
        if txt.startswith("MISSING"):
            good = False
        obligations.append((n, good, txt.splitlines()[0] if txt else ""))
        allok = allok and good
    broken = None
    if not allok:
        broken = "Print Assumptions gate: " + "; ".join("%s: %s" % (n, t) for n, g, t in obligations if not g)
    return dict(ok=allok, obligations=obligations, log=log, broken=broken)


# ---------------------------------------------------------------- known findings, replay, evidence

def known_findings(prop_id):
    p = os.path.join(VERIF, "known_findings.json")
    try:
        data = json.load(open(p))
    except FileNotFoundError:
        return []
    return [k for k in data if k.get("property") == prop_id and k.get("status") == "open"]


def write_replay(prop_id, obj):
    os.makedirs(REPLAY, exist_ok=True)
    blob = json.dumps(obj, sort_keys=True, indent=1)
    h = hashlib.sha1(blob.encode()).hexdigest()[:12]
    path = os.path.join(REPLAY, "%s-%s.json" % (prop_id, h))
    obj = dict(obj)
    obj["replay_cmd"] = "./check %s --replay %s" % (prop_id, os.path.relpath(path, VERIF))
    with open(path, "w") as f:
        json.dump(obj, f, sort_keys=True, indent=1)
    return path


def violation_line(prop_id, path, no_input=False):
    line = "VIOLATION property=%s replay=%s" % (prop_id, path)
    if no_input:
        line += " no-failing-input-found"
    print(line, flush=True)


def write_evidence(prop_id, tier, seed, t0, coverage, assumptions_list, violations, level="proof"):
    os.makedirs(EVID, exist_ok=True)
    ev = {
        "property_id": prop_id,
        "tier": tier,
        "seed": int(seed),
        "level": level,
        "coverage": coverage,
        "assumptions": assumptions_list,
        "wall_s": round(time.time() - t0, 2),
        "violations": int(violations),
    }
    with open(os.path.join(EVID, prop_id + ".json"), "w") as f:
        json.dump(ev, f, indent=1, sort_keys=True)
    return ev


def nlist(xs):
    """Coq list-of-N literal"""
    return "[" + "; ".join(str(int(x)) for x in xs) + "]"


def coq_string(s):
    """Coq string literal for a byte string (latin-1 view of the bytes)"""
    return '"' + s.replace('"', '""') + '"'


class Result:
    """what a property check accumulates; finish() applies the decision protocol of DESIGN.md 2.5"""

    def __init__(self, prop_id, tier, seed):
        self.prop, self.tier, self.seed = prop_id, tier, int(seed)
        self.t0 = time.time()
        self.obligations = []       # (name, ok, note)
        self.failing = []           # dicts: concrete failing inputs (spec oracle vs implementation)
        self.broken = []            # strings: theorem / shard / correspondence that no longer checks
        self.evaluations = 0
        self.distinct = set()
        self.samples = []
        self.rule = ""
        self.extra = {}
        self.assume = []
        self.checker_cmd = ""

    def oblige(self, name, ok, note=""):
        self.obligations.append((name, bool(ok), note))
        if not ok:
            self.broken.append("%s: %s" % (name, note))

    def count(self, key, nontrivial=True):
        self.evaluations += 1
        if nontrivial:
            self.distinct.add(hashlib.sha1(repr(key).encode()).digest()[:8])

    def finish(self, match_known=None):
        """match_known(failing_input, known_entry) -> bool"""
        known = known_findings(self.prop)
        seen_known = {}
        new = []
        for f in self.failing:
            k = None
            if match_known:
                for e in known:
                    if match_known(f, e):
                        k = e
                        break
            if k is not None:
                seen_known.setdefault(k["key"], (k, f))
            else:
                new.append(f)
        for key, (k, f) in sorted(seen_known.items()):
            print("KNOWN-FINDING: property=%s %s [%s]" % (self.prop, k.get("what", ""), key), flush=True)
        nviol = 0
        if new:
            f = new[0]
            path = write_replay(self.prop, dict(property=self.prop, kind="failing-input", seed=self.seed,
                                                tier=self.tier, obligation=None, **f))
            violation_line(self.prop, path)
            nviol = len(new)
        elif self.broken and not (self.failing and not new and self.broken_explained_by_known):
            path = write_replay(self.prop, dict(property=self.prop, kind="broken-obligation", seed=self.seed,
                                                tier=self.tier, obligation=self.broken[0], all_broken=self.broken[:20],
                                                input=None, expected=None, observed=None))
            violation_line(self.prop, path, no_input=True)
            nviol = 1
        nob = len(self.obligations)
        ndis = sum(1 for o in self.obligations if o[1])
        cov = {
            "obligations": max(nob, 1),
            "discharged": ndis,
            "checker_cmd": self.checker_cmd or "make -C coq Props/%s.vo (coqc 8.16.1) + coqc on generated Cases/*.v" % self.prop,
            "trusted_base": TRUSTED_BASE + self.assume,
            "evaluations": max(self.evaluations, 1),
            "distinct_nontrivial": len(self.distinct),
            "rule": self.rule,
            "samples": self.samples[:8] or ["(none)"],
            "obligation_list": [{"name": n, "ok": ok, "note": note[:200]} for n, ok, note in self.obligations],
            "known_findings_seen": sorted(seen_known.keys()),
        }
        cov.update(self.extra)
        write_evidence(self.prop, self.tier, self.seed, self.t0, cov, self.assume, nviol)
        return 1 if nviol else 0

    broken_explained_by_known = False


# ---------------------------------------------------------------- extracted model (OCaml)

OCAML = os.path.join(BUILD, "ocaml")


def build_model():
    """extract the model (ocaml/Extract.v) and build the driver; returns path of the binary.
    Rebuilt only when the Coq sources, Extract.v or driver.ml are newer than the binary."""
    with Lock("ocaml"):
        os.makedirs(OCAML, exist_ok=True)
        exe = os.path.join(OCAML, "avmodel")
        srcs = [os.path.join(VERIF, "ocaml", "Extract.v"), os.path.join(VERIF, "ocaml", "driver.ml")]
        for sub in ("Model", "Spec", "Gen"):
            d = os.path.join(COQ, sub)
            if os.path.isdir(d):
                srcs += [os.path.join(d, f) for f in os.listdir(d) if f.endswith(".v")]
        if os.path.exists(exe) and all(os.path.getmtime(s) <= os.path.getmtime(exe) for s in srcs):
            return exe
        deps = sorted(set("%s/%s.vo" % m for m in re.findall(r"AvraV\.(\w+)\.(\w+)", open(srcs[0]).read())))
        ok, log = coq_make(deps)
        if not ok:
            raise RuntimeError("coq build of the model failed\n" + log[-3000:])
        subprocess.run(["cp", srcs[0], os.path.join(OCAML, "Extract.v")], check=True)
        subprocess.run(["cp", srcs[1], os.path.join(OCAML, "driver.ml")], check=True)
        rc, out = run(["coqc", "-q", "-noglob", "-Q", COQ, "AvraV", "Extract.v"], cwd=OCAML, timeout=900)
        if rc != 0:
            raise RuntimeError("extraction failed\n" + out[-3000:])
        rc, out = run(["ocamlfind", "ocamlopt", "-O2", "-w", "-a", "-package", "str", "-linkpkg", "avmodel.mli", "avmodel.ml",
                       "driver.ml", "-o", "avmodel"], cwd=OCAML, timeout=900)
        if rc != 0:
            rc, out = run(["ocamlfind", "ocamlopt", "-w", "-a", "-package", "str", "-linkpkg", "avmodel.mli", "avmodel.ml",
                           "driver.ml", "-o", "avmodel"], cwd=OCAML, timeout=900)
        if rc != 0:
            raise RuntimeError("ocamlopt failed\n" + out[-3000:])
    return exe


def model(exe, args, input=None, timeout=1800):
    """run the extracted model; deep recursion on long lists needs an unlimited stack"""
    cmd = "ulimit -s unlimited 2>/dev/null || ulimit -s 1000000; exec " + " ".join(
        "'" + a.replace("'", "'\\''") + "'" for a in [exe] + list(args))
    rc, out = run(["bash", "-c", cmd], input=input, timeout=timeout)
    if rc != 0:
        raise RuntimeError("model driver %s failed rc=%s\n%s" % (args, rc, out[-3000:]))
    return out


def setup():
    """MANIFEST.setup_cmd: build everything from files on disk, offline"""
    t0 = time.time()
    os.makedirs(BUILD, exist_ok=True)
    os.makedirs(os.path.join(BUILD, "home"), exist_ok=True)
    rc, out = run(["./mk.sh"], cwd=COQ)
    rc, out = run(["make", "-j%d" % NCPU], cwd=COQ, timeout=7200)
    print(out[-3000:])
    if rc != 0:
        print("setup: coq build failed")
        return 1
    build_harness("debug")
    build_model()
    print("setup done in %.0fs" % (time.time() - t0))
    return 0
