//! C17: histories of builds inside ONE process.  stdin: hex of a source per line.
//! For every source prints (tab separated): the observation when built in the given order, in
//! reverse order, and every distinct observation seen when 8 threads build all sources
//! concurrently, each thread in its own rotation of the list.
use crate::build::observe;
use crate::util::{read_stdin, unhex};
use std::collections::BTreeSet;
use std::sync::{Arc, Mutex};

pub fn main(args: &[String]) -> i32 {
    let threads: usize = args.get(0).and_then(|x| x.parse().ok()).unwrap_or(8);
    let sources: Vec<String> = read_stdin()
        .lines()
        .map(|l| String::from_utf8(unhex(l.trim())).unwrap_or_default())
        .collect();
    let n = sources.len();
    let fwd: Vec<String> = sources.iter().map(|s| observe(s)).collect();
    let mut rev: Vec<String> = vec![String::new(); n];
    for i in (0..n).rev() {
        rev[i] = observe(&sources[i]);
    }
    let seen: Arc<Mutex<Vec<BTreeSet<String>>>> = Arc::new(Mutex::new(vec![BTreeSet::new(); n]));
    let src = Arc::new(sources);
    let mut hs = vec![];
    for t in 0..threads {
        let src = src.clone();
        let seen = seen.clone();
        hs.push(std::thread::Builder::new().stack_size(64 << 20).spawn(move || {
            for k in 0..n {
                let i = (k * (2 * t + 1) + t * 7) % n.max(1);
                let o = observe(&src[i]);
                seen.lock().unwrap()[i].insert(o);
            }
        }).unwrap());
    }
    for h in hs {
        let _ = h.join();
    }
    let seen = seen.lock().unwrap();
    for i in 0..n {
        let c: Vec<String> = seen[i].iter().cloned().collect();
        println!("{}\t{}\t{}", fwd[i], rev[i], c.join("|"));
    }
    0
}
