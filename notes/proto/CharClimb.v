From Coq Require Import List Arith Lia Bool Ascii NArith.
Import ListNotations.

Definition text := list ascii.

Definition hd_ok (P : ascii -> bool) (s : text) : bool :=
  match s with [] => true | c :: _ => P c end.

Fixpoint strip (tok s : text) : option text :=
  match tok with
  | [] => Some s
  | c :: tk => match s with d :: r => if Ascii.eqb c d then strip tk r else None | [] => None end
  end.

Lemma strip_app tok s : strip tok (tok ++ s) = Some s.
Proof. induction tok as [|c tk IH]; cbn; [reflexivity|]. rewrite Ascii.eqb_refl. exact IH. Qed.

Section CharClimb.
Variable binop unop : Type.
Variable itab : list (nat * text * binop).
Variable ptab : list (nat * text * unop).
Variable is_sp idch idstart digit : ascii -> bool.
Variable id_parse : text -> option (text * text).
Variable num_parse : text -> option (N * text).
Variable num_render : N -> text.
Variable wf_id : text -> Prop.
Definition LP : ascii := "("%char.
Definition RP : ascii := ")"%char.

Inductive expr := EId (n:text) | ENum (k:N) | EF (n:text) (a:expr)
                | EB (o:binop) (l r:expr) | EU (u:unop) (x:expr).
Definition pres := option (expr * text).

Fixpoint skip_sp (s:text) : text :=
  match s with c :: r => if is_sp c then skip_sp r else s | [] => [] end.

(* ---------------- the parser (mirror of peg's generated code) ---------------- *)
Fixpoint try_prefix (rec : nat -> text -> pres) (tbl : list (nat*text*unop)) (s:text) : pres :=
  match tbl with
  | [] => None
  | (lvl, tok, u) :: tl =>
      match strip tok s with
      | Some r => match rec (S lvl) r with
                  | Some (e, r') => Some (EU u e, r')
                  | None => try_prefix rec tl s end
      | None => try_prefix rec tl s
      end
  end.

Definition paren_tail (rec : nat -> text -> pres) (s:text) : pres :=
  (* after "(" : space expr space ")" *)
  match rec 0 (skip_sp s) with
  | Some (e, r) => match skip_sp r with c :: r' => if Ascii.eqb c RP then Some (e, r') else None | [] => None end
  | None => None
  end.

Definition try_func (rec : nat -> text -> pres) (s:text) : pres :=
  match id_parse s with
  | Some (n, r) => match skip_sp r with
                   | c :: r1 => if Ascii.eqb c LP then
                                  match paren_tail rec r1 with Some (a, r2) => Some (EF n a, r2) | None => None end
                                else None
                   | [] => None end
  | None => None
  end.

Definition try_paren (rec : nat -> text -> pres) (s:text) : pres :=
  match s with c :: r => if Ascii.eqb c LP then paren_tail rec r else None | [] => None end.

Definition prefix_atom (rec : nat -> text -> pres) (s:text) : pres :=
  match try_prefix rec ptab s with Some x => Some x | None =>
  match try_func rec s with Some x => Some x | None =>
  match try_paren rec s with Some x => Some x | None =>
  match num_parse s with Some (k, r) => Some (ENum k, r) | None =>
  match id_parse s with Some (n, r) => Some (EId n, r) | None => None end end end end end.

Fixpoint try_infix (rec : nat -> text -> pres) (minp:nat) (tbl : list (nat*text*binop)) (s:text)
  : option (binop * expr * text) :=
  match tbl with
  | [] => None
  | (lvl, tok, o) :: tl =>
      if minp <=? lvl then
        match strip tok s with
        | Some r => match rec (S lvl) (skip_sp r) with
                    | Some (e, r') => Some (o, e, r')
                    | None => try_infix rec minp tl s end
        | None => try_infix rec minp tl s
        end
      else try_infix rec minp tl s
  end.

Fixpoint loop (rec : nat -> text -> pres) (g:nat) (minp:nat) (acc:expr) (s:text) : pres :=
  match g with O => None | S g' =>
    match try_infix rec minp itab (skip_sp s) with
    | Some (o, e, r') => loop rec g' minp (EB o acc e) r'
    | None => Some (acc, s)
    end
  end.

Fixpoint climb (f:nat) (minp:nat) (s:text) {struct f} : pres :=
  match f with O => None | S f' =>
    match prefix_atom (climb f') s with
    | None => None
    | Some (e0, r0) => loop (climb f') f' minp e0 r0
    end
  end.

(* ---------------- tables as functions, renderer ---------------- *)
Variable lb : binop -> nat.  Variable tb : binop -> text.
Variable lu : unop -> nat.   Variable tu : unop -> text.
Variable symc : ascii -> bool.     (* characters operator tokens are made of *)

Definition pfirst (c:ascii) : bool :=
  existsb (fun e => match snd (fst e) with d :: _ => Ascii.eqb c d | [] => false end) ptab.
Definition starter (c:ascii) : bool := idstart c || digit c || Ascii.eqb c LP || pfirst c.
Definition bad (c:ascii) : bool := symc c && negb (pfirst c).
Definition hd_is (P:ascii->bool) (s:text) : Prop := exists c r, s = c :: r /\ P c = true.

Variable np : nat -> expr -> bool.       (* parenthesisation policy of the printer *)
Definition must_paren (ctx:nat) (e:expr) : bool :=
  match e with EB o _ _ => lb o <? ctx | EU u _ => lu u <? ctx | _ => false end.
Definition needs_paren (ctx:nat) (e:expr) : bool :=
  match e with EB _ _ _ | EU _ _ => np ctx e | _ => false end.
Hypothesis np_sound : forall ctx e, must_paren ctx e = true -> np ctx e = true.

Fixpoint render (ctx:nat) (e:expr) : text :=
  let b := match e with
    | EId n => n
    | ENum k => num_render k
    | EF n a => n ++ LP :: render 0 a ++ [RP]
    | EB o l r => render (lb o) l ++ tb o ++ render (S (lb o)) r
    | EU u x => tu u ++ render (S (lu u)) x
    end in
  if needs_paren ctx e then LP :: b ++ [RP] else b.

Fixpoint wf (e:expr) : Prop :=
  match e with EId n => wf_id n | ENum _ => True | EF n a => wf_id n /\ wf a
             | EB _ l r => wf l /\ wf r | EU _ x => wf x end.

(* ---------------- relational semantics, successful paths ---------------- *)
Inductive Parses : nat -> text -> expr*text -> Prop :=
| P_mk minp s e0 r0 res : Pre s (e0, r0) -> LoopR minp e0 r0 res -> Parses minp s res
with Pre : text -> expr*text -> Prop :=
| Pre_un s res : TryP ptab s res -> Pre s res
| Pre_func s n r r1 res :
    (forall rec, try_prefix rec ptab s = None) -> id_parse s = Some (n, r) -> skip_sp r = LP :: r1 ->
    PT r1 res -> Pre s (EF n (fst res), snd res)
| Pre_paren s r res :
    (forall rec, try_prefix rec ptab s = None) -> (forall rec, try_func rec s = None) ->
    s = LP :: r -> PT r res -> Pre s res
| Pre_num s k r :
    (forall rec, try_prefix rec ptab s = None) -> (forall rec, try_func rec s = None) ->
    (forall rec, try_paren rec s = None) -> num_parse s = Some (k, r) -> Pre s (ENum k, r)
| Pre_id s n r :
    (forall rec, try_prefix rec ptab s = None) -> (forall rec, try_func rec s = None) ->
    (forall rec, try_paren rec s = None) -> num_parse s = None -> id_parse s = Some (n, r) -> Pre s (EId n, r)
with PT : text -> expr*text -> Prop :=
| PT_mk s e r r' : Parses 0 (skip_sp s) (e, r) -> skip_sp r = RP :: r' -> PT s (e, r')
with TryP : list (nat*text*unop) -> text -> expr*text -> Prop :=
| TP_hit lvl tok u tl s r e r' : strip tok s = Some r -> Parses (S lvl) r (e, r') -> TryP ((lvl,tok,u)::tl) s (EU u e, r')
| TP_skip lvl tok u tl s res : strip tok s = None -> TryP tl s res -> TryP ((lvl,tok,u)::tl) s res
with LoopR : nat -> expr -> text -> expr*text -> Prop :=
| L_stop minp acc s : (forall f, try_infix (climb f) minp itab (skip_sp s) = None) -> LoopR minp acc s (acc, s)
| L_step minp acc s o e r' res : TryI minp itab (skip_sp s) (o, e, r') -> LoopR minp (EB o acc e) r' res -> LoopR minp acc s res
with TryI : nat -> list (nat*text*binop) -> text -> binop*expr*text -> Prop :=
| TI_hit minp lvl tok o tl s r e r' : minp <= lvl -> strip tok s = Some r -> Parses (S lvl) (skip_sp r) (e, r') ->
    TryI minp ((lvl,tok,o)::tl) s (o, e, r')
| TI_skip_lvl minp lvl tok o tl s res : lvl < minp -> TryI minp tl s res -> TryI minp ((lvl,tok,o)::tl) s res
| TI_skip_tok minp lvl tok o tl s res : strip tok s = None -> TryI minp tl s res -> TryI minp ((lvl,tok,o)::tl) s res
| TI_skip_rhs minp lvl tok o tl s r res : strip tok s = Some r -> (forall f m, climb f m (skip_sp r) = None) ->
    TryI minp tl s res -> TryI minp ((lvl,tok,o)::tl) s res.

Scheme Parses_i := Induction for Parses Sort Prop
with Pre_i := Induction for Pre Sort Prop
with PT_i := Induction for PT Sort Prop
with TryP_i := Induction for TryP Sort Prop
with LoopR_i := Induction for LoopR Sort Prop
with TryI_i := Induction for TryI Sort Prop.
Combined Scheme sem_mut from Parses_i, Pre_i, PT_i, TryP_i, LoopR_i, TryI_i.

Theorem complete :
  (forall minp s res, Parses minp s res -> exists n, forall f, n <= f -> climb f minp s = Some res) /\
  (forall s res, Pre s res -> exists n, forall f, n <= f -> prefix_atom (climb f) s = Some res) /\
  (forall s res, PT s res -> exists n, forall f, n <= f -> paren_tail (climb f) s = Some res) /\
  (forall tbl s res, TryP tbl s res -> exists n, forall f, n <= f -> try_prefix (climb f) tbl s = Some res) /\
  (forall minp acc s res, LoopR minp acc s res -> exists n, forall f g, n <= f -> n <= g -> loop (climb f) g minp acc s = Some res) /\
  (forall minp tbl s res, TryI minp tbl s res -> exists n, forall f, n <= f -> try_infix (climb f) minp tbl s = Some res).
Proof.
  apply sem_mut.
  - intros minp s e0 r0 res _ [n1 H1] _ [n2 H2]. exists (S (n1+n2)). intros f Hf.
    destruct f as [|f']; [lia|]. cbn [climb]. rewrite H1 by lia. apply H2; lia.
  - intros s res _ [n H]. exists n. intros f Hf. unfold prefix_atom. rewrite H by lia. reflexivity.
  - intros s n r r1 res Hp Hid Hsp _ [m H]. exists m. intros f Hf. unfold prefix_atom.
    rewrite Hp. unfold try_func. rewrite Hid, Hsp. unfold LP at 1. rewrite Ascii.eqb_refl.
    rewrite H by lia. destruct res; reflexivity.
  - intros s r res Hp Hf0 -> _ [m H]. exists m. intros f Hf. unfold prefix_atom.
    rewrite Hp, Hf0. unfold try_paren. unfold LP at 1. rewrite Ascii.eqb_refl. rewrite H by lia. reflexivity.
  - intros s k r Hp Hf0 Hpa Hn. exists 0. intros f _. unfold prefix_atom. rewrite Hp, Hf0, Hpa, Hn. reflexivity.
  - intros s n r Hp Hf0 Hpa Hn Hid. exists 0. intros f _. unfold prefix_atom. rewrite Hp, Hf0, Hpa, Hn, Hid. reflexivity.
  - intros s e r r' _ [m H] Hsp. exists m. intros f Hf. unfold paren_tail. rewrite H by lia. rewrite Hsp.
    unfold RP at 1. rewrite Ascii.eqb_refl. reflexivity.
  - intros lvl tok u tl s r e r' Hs _ [m H]. exists m. intros f Hf. cbn [try_prefix]. rewrite Hs, H by lia. reflexivity.
  - intros lvl tok u tl s res Hs _ [m H]. exists m. intros f Hf. cbn [try_prefix]. rewrite Hs. apply H; lia.
  - intros minp acc s Hn. exists 1. intros f g _ Hg. destruct g as [|g']; [lia|]. cbn [loop]. rewrite Hn. reflexivity.
  - intros minp acc s o e r' res _ [n1 H1] _ [n2 H2]. exists (S (n1+n2)). intros f g Hf Hg.
    destruct g as [|g']; [lia|]. cbn [loop]. rewrite H1 by lia. apply H2; lia.
  - intros minp lvl tok o tl s r e r' Hle Hs _ [m H]. exists m. intros f Hf. cbn [try_infix].
    destruct (Nat.leb_spec minp lvl); [|lia]. rewrite Hs, H by lia. reflexivity.
  - intros minp lvl tok o tl s res Hlt _ [m H]. exists m. intros f Hf. cbn [try_infix].
    destruct (Nat.leb_spec minp lvl); [lia|]. apply H; lia.
  - intros minp lvl tok o tl s res Hs _ [m H]. exists m. intros f Hf. cbn [try_infix].
    destruct (minp <=? lvl); [rewrite Hs|]; apply H; lia.
  - intros minp lvl tok o tl s r res Hs Hfail _ [m H]. exists m. intros f Hf. cbn [try_infix].
    destruct (minp <=? lvl); [rewrite Hs, Hfail|]; apply H; lia.
Qed.

(* ---------------- hypotheses: character classes, atom parsers, table conditions ---------------- *)
Hypothesis Hsym : forall c, symc c = true ->
  idch c = false /\ idstart c = false /\ digit c = false /\ is_sp c = false /\ Ascii.eqb c LP = false /\ Ascii.eqb c RP = false.
Hypothesis Hidstart : forall c, idstart c = true -> idch c = true /\ digit c = false.
Hypothesis Hdigit : forall c, digit c = true -> idch c = true.
Hypothesis Hidch_sp : forall c, idch c = true -> is_sp c = false.
Hypothesis HLP : idch LP = false /\ idstart LP = false /\ digit LP = false /\ is_sp LP = false.
Hypothesis HRP : idch RP = false /\ idstart RP = false /\ digit RP = false /\ is_sp RP = false /\ Ascii.eqb RP LP = false.

Hypothesis H_id_ok : forall n r, wf_id n -> hd_ok (fun c => negb (idch c)) r = true -> id_parse (n ++ r) = Some (n, r).
Hypothesis H_id_fail : forall s, hd_ok (fun c => negb (idstart c)) s = true -> id_parse s = None.
Hypothesis H_id_hd : forall n, wf_id n -> hd_is idstart n.
Hypothesis H_num_ok : forall k r, hd_ok (fun c => negb (digit c)) r = true -> num_parse (num_render k ++ r) = Some (k, r).
Hypothesis H_num_fail : forall s, hd_ok (fun c => negb (digit c)) s = true -> num_parse s = None.
Hypothesis H_num_hd : forall k, hd_is digit (num_render k).

Hypothesis HPsym : forall l t u, In (l,t,u) ptab -> hd_is symc t.
Hypothesis HIsym : forall l t o, In (l,t,o) itab -> hd_is symc t.
Hypothesis HPpos : forall u, exists pre post, ptab = pre ++ (lu u, tu u, u) :: post /\
  forall l t u', In (l,t,u') pre -> forall s, strip t (tu u ++ s) = None.
Hypothesis HIpos : forall o, exists pre post, itab = pre ++ (lb o, tb o, o) :: post /\
  forall l t o', In (l,t,o') pre -> forall s, hd_is starter s ->
    strip t (tb o ++ s) = None \/ exists r, strip t (tb o ++ s) = Some r /\ hd_is bad r.
Hypothesis HIstop : forall o minp s l t o', lb o < minp -> hd_is starter s -> In (l,t,o') itab -> minp <= l ->
    strip t (tb o ++ s) = None \/ exists r, strip t (tb o ++ s) = Some r /\ hd_is bad r.

(* ---------------- small facts ---------------- *)
Lemma skip_nonsp c r : is_sp c = false -> skip_sp (c :: r) = c :: r.
Proof. intros H. cbn. rewrite H. reflexivity. Qed.

Lemma pfirst_sym c : pfirst c = true -> symc c = true.
Proof.
  unfold pfirst. rewrite existsb_exists. intros [[[l t] u] [Hin Hc]]. cbn in Hc.
  destruct (HPsym _ _ _ Hin) as (d & tl & -> & Hd). apply Ascii.eqb_eq in Hc. subst. exact Hd.
Qed.

Lemma starter_nonsp c : starter c = true -> is_sp c = false.
Proof.
  unfold starter. rewrite !orb_true_iff. intros [[[H|H]|H]|H].
  - apply Hidch_sp. apply Hidstart in H. tauto.
  - apply Hidch_sp, Hdigit, H.
  - apply Ascii.eqb_eq in H. subst. tauto.
  - apply pfirst_sym in H. apply Hsym in H. tauto.
Qed.

Lemma bad_nonsp c : bad c = true -> is_sp c = false.
Proof. unfold bad. rewrite andb_true_iff. intros [H _]. apply Hsym in H. tauto. Qed.

Lemma strip_hd_ne t c r : hd_is symc t -> symc c = false -> strip t (c :: r) = None.
Proof.
  intros (d & tl & -> & Hd) Hc. cbn. destruct (Ascii.eqb_spec d c); [subst; congruence | reflexivity].
Qed.

Lemma strip_nil t : hd_is symc t -> strip t [] = None.
Proof. intros (d & tl & -> & _). reflexivity. Qed.

Lemma try_prefix_none_gen : forall tbl, (forall l t u, In (l,t,u) tbl -> hd_is symc t) ->
  forall c r rec,
  existsb (fun e : nat*text*unop => match snd (fst e) with d :: _ => Ascii.eqb c d | [] => false end) tbl = false ->
  try_prefix rec tbl (c :: r) = None.
Proof.
  induction tbl as [|[[l t] u] tl IH]; intros Hall c r rec H; [reflexivity|].
  cbn in H. apply orb_false_iff in H as [H1 H2]. cbn [try_prefix].
  destruct (Hall l t u (or_introl eq_refl)) as (d & t' & -> & _).
  cbn. rewrite Ascii.eqb_sym, H1. apply IH; [|exact H2]. intros; eapply Hall; right; eauto.
Qed.

Lemma try_prefix_none c r : pfirst c = false -> forall rec, try_prefix rec ptab (c :: r) = None.
Proof. intros H rec. apply try_prefix_none_gen; [exact HPsym | exact H]. Qed.

Lemma nonsym_pfirst c : symc c = false -> pfirst c = false.
Proof. intros H. destruct (pfirst c) eqn:E; [apply pfirst_sym in E; congruence | reflexivity]. Qed.

Lemma climb_fails_bad s : hd_is bad s -> forall f m, climb f m s = None.
Proof.
  intros (c & r & -> & Hb) f m. destruct f as [|f']; [reflexivity|]. cbn [climb].
  unfold bad in Hb. apply andb_true_iff in Hb as [Hs Hp]. apply negb_true_iff in Hp.
  destruct (Hsym _ Hs) as (H1 & H2 & H3 & H4 & H5 & H6).
  unfold prefix_atom. rewrite try_prefix_none by exact Hp.
  unfold try_func. rewrite H_id_fail by (cbn; rewrite H2; reflexivity).
  unfold try_paren. rewrite H5.
  rewrite H_num_fail by (cbn; rewrite H3; reflexivity). reflexivity.
Qed.

(* what may follow a rendered expression *)
Definition stop_ok (minp:nat) (rest:text) : Prop :=
  rest = [] \/ (exists r, rest = RP :: r) \/ (exists o r, rest = tb o ++ r /\ lb o < minp /\ hd_is starter r).
Definition rest_ok (ctx:nat) (rest:text) : Prop :=
  rest = [] \/ (exists r, rest = RP :: r) \/ (exists o r, rest = tb o ++ r /\ lb o <= ctx /\ hd_is starter r).

Lemma rest_stop ctx minp rest : rest_ok ctx rest -> ctx < minp -> stop_ok minp rest.
Proof. intros [H|[H|(o & r & H1 & H2 & H3)]] Hlt; [left|right;left|right;right]; auto. exists o, r. repeat split; auto; lia. Qed.

Lemma in_itab o : In (lb o, tb o, o) itab.
Proof. destruct (HIpos o) as (pre & post & -> & _). apply in_or_app. right. left. reflexivity. Qed.
Lemma in_ptab u : In (lu u, tu u, u) ptab.
Proof. destruct (HPpos u) as (pre & post & -> & _). apply in_or_app. right. left. reflexivity. Qed.

Lemma tb_hd o r : exists c t, tb o ++ r = c :: t /\ symc c = true.
Proof. destruct (HIsym _ _ _ (in_itab o)) as (c & t & E & H). rewrite E. exists c, (t ++ r). split; [reflexivity|exact H]. Qed.

Lemma rest_skip ctx rest : rest_ok ctx rest -> skip_sp rest = rest.
Proof.
  intros [->|[[r ->]|(o & r & -> & _)]]; [reflexivity| apply skip_nonsp; tauto |].
  destruct (tb_hd o r) as (c & t & -> & H). apply skip_nonsp. apply Hsym in H. tauto.
Qed.

Lemma rest_not_idch ctx rest : rest_ok ctx rest -> hd_ok (fun c => negb (idch c)) rest = true.
Proof.
  intros [->|[[r ->]|(o & r & -> & _)]]; [reflexivity| cbn; destruct HRP as [-> _]; reflexivity |].
  destruct (tb_hd o r) as (c & t & -> & H). cbn. apply Hsym in H. destruct H as [-> _]. reflexivity.
Qed.

Lemma rest_not_digit ctx rest : rest_ok ctx rest -> hd_ok (fun c => negb (digit c)) rest = true.
Proof.
  intros [->|[[r ->]|(o & r & -> & _)]]; [reflexivity| cbn; destruct HRP as (_ & _ & -> & _); reflexivity |].
  destruct (tb_hd o r) as (c & t & -> & H). cbn. apply Hsym in H. destruct H as (_ & _ & -> & _). reflexivity.
Qed.

Lemma rest_not_lp ctx rest : rest_ok ctx rest ->
  match skip_sp rest with c :: _ => Ascii.eqb c LP = false | [] => True end.
Proof.
  intros H. rewrite (rest_skip _ _ H). destruct H as [->|[[r ->]|(o & r & -> & _)]]; [exact I| tauto |].
  destruct (tb_hd o r) as (c & t & -> & H). apply Hsym in H. tauto.
Qed.

Lemma stop_skip minp rest : stop_ok minp rest -> skip_sp rest = rest.
Proof.
  intros [->|[[r ->]|(o & r & -> & _)]]; [reflexivity| apply skip_nonsp; tauto |].
  destruct (tb_hd o r) as (c & t & -> & H). apply skip_nonsp. apply Hsym in H. tauto.
Qed.

Lemma stop_none minp rest : stop_ok minp rest -> forall f, try_infix (climb f) minp itab (skip_sp rest) = None.
Proof.
  intros H f. rewrite (stop_skip _ _ H).
  assert (G : forall tbl, (forall e, In e tbl -> In e itab) -> try_infix (climb f) minp tbl rest = None).
  { induction tbl as [|[[l t] o'] tl IH]; intros Hsub; [reflexivity|]. cbn [try_infix].
    assert (IH' : try_infix (climb f) minp tl rest = None) by (apply IH; intros e He; apply Hsub; right; exact He).
    assert (Hin : In (l,t,o') itab) by (apply Hsub; left; reflexivity).
    destruct (Nat.leb_spec minp l) as [Hle|Hgt]; [|exact IH'].
    destruct H as [->|[[r ->]|(o & r & -> & Hlt & Hst)]].
    - rewrite strip_nil by (eapply HIsym; eauto). exact IH'.
    - rewrite strip_hd_ne; [exact IH' | eapply HIsym; eauto |].
      destruct (symc RP) eqn:E; [apply Hsym in E; destruct E as (_&_&_&_&_&E); rewrite Ascii.eqb_refl in E; discriminate | reflexivity].
    - destruct (HIstop o minp r l t o' Hlt Hst Hin Hle) as [->|(r' & -> & Hb)]; [exact IH'|].
      destruct Hb as (c' & r'' & -> & Hb). rewrite skip_nonsp by (apply bad_nonsp; exact Hb).
      rewrite climb_fails_bad by (exists c', r''; auto). exact IH'. }
  apply G. auto.
Qed.

Lemma tryI_pre minp pre entry post s res :
  (forall l t o', In (l,t,o') pre -> strip t s = None \/ exists r, strip t s = Some r /\ hd_is bad r) ->
  TryI minp (entry :: post) s res -> TryI minp (pre ++ entry :: post) s res.
Proof.
  induction pre as [|[[l t] o'] tl IH]; intros Hpre HT; [exact HT|]. cbn [app].
  destruct (Hpre l t o' (or_introl eq_refl)) as [E|(r & E & Hb)].
  - apply TI_skip_tok; [exact E|]. apply IH; [|exact HT]. intros l0 t0 o0 Hin; apply (Hpre l0 t0 o0); right; exact Hin.
  - eapply TI_skip_rhs; [exact E | |].
    + destruct Hb as (c & r' & -> & Hb). rewrite skip_nonsp by (apply bad_nonsp; exact Hb).
      apply climb_fails_bad. exists c, r'; auto.
    + apply IH; [|exact HT]. intros l0 t0 o0 Hin; apply (Hpre l0 t0 o0); right; exact Hin.
Qed.

Lemma tryP_pre pre entry post s res :
  (forall l t u', In (l,t,u') pre -> strip t s = None) ->
  TryP (entry :: post) s res -> TryP (pre ++ entry :: post) s res.
Proof.
  induction pre as [|[[l t] u'] tl IH]; intros Hpre HT; [exact HT|]. cbn [app].
  apply TP_skip; [apply (Hpre l t u'); left; reflexivity|]. apply IH; [|exact HT]. intros l0 t0 u0 Hin; apply (Hpre l0 t0 u0); right; exact Hin.
Qed.

Lemma render_starter e : wf e -> forall ctx rest, hd_is starter (render ctx e ++ rest).
Proof.
  induction e as [n|k|n a IHa|o l IHl r IHr|u x IHx]; intros Hwf ctx rest; cbn [wf] in Hwf; cbn [render needs_paren].
  - destruct (H_id_hd n Hwf) as (c & t & -> & H). exists c, (t ++ rest). split; [reflexivity|]. unfold starter. rewrite H. reflexivity.
  - destruct (H_num_hd k) as (c & t & -> & H). exists c, (t ++ rest). split; [reflexivity|]. unfold starter. rewrite H, orb_true_r. reflexivity.
  - destruct Hwf as [Hn _]. destruct (H_id_hd n Hn) as (c & t & -> & H). eexists c, _. split; [reflexivity|]. unfold starter. rewrite H. reflexivity.
  - destruct (np ctx (EB o l r)).
    + eexists LP, _. split; [reflexivity|]. unfold starter. rewrite Ascii.eqb_refl, !orb_true_r. reflexivity.
    + rewrite <- app_assoc. apply IHl. tauto.
  - destruct (np ctx (EU u x)).
    + eexists LP, _. split; [reflexivity|]. unfold starter. rewrite Ascii.eqb_refl, !orb_true_r. reflexivity.
    + destruct (HPsym _ _ _ (in_ptab u)) as (c & t & E & H). rewrite E. eexists c, _. split; [reflexivity|].
      unfold starter. replace (pfirst c) with true; [rewrite !orb_true_r; reflexivity|]. symmetry.
      unfold pfirst. apply existsb_exists. exists (lu u, tu u, u). split; [apply in_ptab|]. cbn. rewrite E. apply Ascii.eqb_refl.
Qed.

Lemma starter_skip s : hd_is starter s -> skip_sp s = s.
Proof. intros (c & r & -> & H). apply skip_nonsp, starter_nonsp, H. Qed.

(* alternatives that must fail before an atom is reached *)
Lemma idstart_prefix_none c r : idstart c = true -> forall rec, try_prefix rec ptab (c :: r) = None.
Proof. intros H. apply try_prefix_none, nonsym_pfirst. destruct (symc c) eqn:E; [apply Hsym in E; destruct E as (_ & E & _); congruence | reflexivity]. Qed.
Lemma digit_prefix_none c r : digit c = true -> forall rec, try_prefix rec ptab (c :: r) = None.
Proof. intros H. apply try_prefix_none, nonsym_pfirst. destruct (symc c) eqn:E; [apply Hsym in E; destruct E as (_ & _ & E & _); congruence | reflexivity]. Qed.
Lemma lp_prefix_none r : forall rec, try_prefix rec ptab (LP :: r) = None.
Proof. apply try_prefix_none, nonsym_pfirst. destruct (symc LP) eqn:E; [apply Hsym in E; destruct E as (_&_&_&_&E&_); rewrite Ascii.eqb_refl in E; discriminate | reflexivity]. Qed.

(* ---------------- the round-trip theorem, against the relation ---------------- *)
Theorem render_parses : forall e, wf e -> forall ctx minp rest res,
  minp <= ctx -> rest_ok ctx rest -> LoopR minp e rest res -> Parses minp (render ctx e ++ rest) res.
Proof.
  assert (PAREN : forall e b minp rest res,
      (forall rest' res', rest_ok 0 rest' -> LoopR 0 e rest' res' -> Parses 0 (b ++ rest') res') ->
      hd_is starter b -> (forall rest', hd_is starter (b ++ rest')) ->
      LoopR minp e rest res -> Parses minp ((LP :: b ++ [RP]) ++ rest) res).
  { intros e b minp rest res NP _ Hst HL. cbn [app]. rewrite <- app_assoc. cbn [app].
    econstructor; [|exact HL]. eapply Pre_paren; [apply lp_prefix_none | | reflexivity |].
    - intros rec. unfold try_func. rewrite H_id_fail; [reflexivity|]. cbn. destruct HLP as (_ & -> & _). reflexivity.
    - apply PT_mk with (r := RP :: rest); [| apply skip_nonsp; tauto].
      rewrite starter_skip by apply Hst.
      apply NP; [right; left; eauto|]. apply L_stop. apply stop_none. right; left; eauto. }
  induction e as [n|k|n a IHa|o l IHl r IHr|u x IHx]; intros Hwf ctx minp rest res Hm Hok HL; cbn [wf] in Hwf.
  - (* identifier *)
    cbn [render needs_paren]. destruct (H_id_hd n Hwf) as (c & t & En & Hc).
    assert (Hid : id_parse (n ++ rest) = Some (n, rest)) by (apply H_id_ok; [exact Hwf | eapply rest_not_idch; eauto]).
    econstructor; [|exact HL]. rewrite En in *. cbn [app] in *.
    apply Pre_id; [apply idstart_prefix_none, Hc | | | | exact Hid].
    + intros rec. unfold try_func. rewrite Hid. pose proof (rest_not_lp _ _ Hok) as Hl.
      destruct (skip_sp rest) as [|d r']; [reflexivity|]. rewrite Hl. reflexivity.
    + intros rec. unfold try_paren. destruct (Ascii.eqb_spec c LP) as [->|]; [|reflexivity].
      destruct HLP as (_ & E & _). congruence.
    + apply H_num_fail. cbn. apply Hidstart in Hc. destruct Hc as [_ ->]. reflexivity.
  - (* number *)
    cbn [render needs_paren]. destruct (H_num_hd k) as (c & t & En & Hc).
    assert (Hn : num_parse (num_render k ++ rest) = Some (k, rest)) by (apply H_num_ok; eapply rest_not_digit; eauto).
    econstructor; [|exact HL]. rewrite En in *. cbn [app] in *.
    assert (Hns : idstart c = false).
    { destruct (idstart c) eqn:E; [apply Hidstart in E; destruct E; congruence | reflexivity]. }
    apply Pre_num; [apply digit_prefix_none, Hc | | | exact Hn].
    + intros rec. unfold try_func. rewrite H_id_fail; [reflexivity|]. cbn. rewrite Hns. reflexivity.
    + intros rec. unfold try_paren. destruct (Ascii.eqb_spec c LP) as [->|]; [|reflexivity].
      destruct HLP as (_ & _ & E & _). congruence.
  - (* function call *)
    destruct Hwf as [Hn Ha]. cbn [render needs_paren]. rewrite <- app_assoc. cbn [app]. rewrite <- app_assoc. cbn [app].
    destruct (H_id_hd n Hn) as (c & t & En & Hc).
    econstructor; [|exact HL].
    change (EF n a, rest) with (EF n (fst (a, rest)), snd (a, rest)).
    eapply Pre_func with (r := LP :: render 0 a ++ RP :: rest).
    + rewrite En. cbn [app]. apply idstart_prefix_none, Hc.
    + apply H_id_ok; [exact Hn|]. cbn. destruct HLP as [-> _]. reflexivity.
    + apply skip_nonsp. tauto.
    + apply PT_mk with (r := RP :: rest); [| apply skip_nonsp; tauto].
      rewrite starter_skip by (apply render_starter, Ha).
      apply IHa; [exact Ha | lia | right; left; eauto |]. apply L_stop, stop_none. right; left; eauto.
  - (* binary *)
    destruct Hwf as [Hl Hr].
    assert (NP : forall ctx' minp' rest' res', minp' <= ctx' -> ctx' <= lb o -> rest_ok ctx' rest' ->
               LoopR minp' (EB o l r) rest' res' ->
               Parses minp' ((render (lb o) l ++ tb o ++ render (S (lb o)) r) ++ rest') res').
    { intros ctx' minp' rest' res' Hm' Hge Hok' HL'. rewrite <- !app_assoc.
      assert (Hst : hd_is starter (render (S (lb o)) r ++ rest')) by (apply render_starter, Hr).
      apply IHl; [exact Hl | lia | right; right; exists o, (render (S (lb o)) r ++ rest'); auto |].
      eapply L_step; [|exact HL'].
      destruct (tb_hd o (render (S (lb o)) r ++ rest')) as (c & t & E & Hc).
      rewrite E, skip_nonsp by (apply Hsym in Hc; tauto). rewrite <- E.
      destruct (HIpos o) as (pre & post & Etab & Hpre). rewrite Etab.
      apply tryI_pre; [intros l0 t0 o0 Hin; eapply Hpre; eauto|].
      eapply TI_hit; [lia | apply strip_app |]. rewrite starter_skip by exact Hst.
      assert (Hok2 : rest_ok (S (lb o)) rest').
      { destruct Hok' as [H|[H|(o2 & r2 & H1 & H2 & H3)]]; [left|right;left|right;right]; auto. exists o2, r2. repeat split; auto; lia. }
      apply IHr; [exact Hr | lia | exact Hok2 |]. apply L_stop, stop_none.
      destruct Hok' as [H|[H|(o2 & r2 & H1 & H2 & H3)]]; [left|right;left|right;right]; auto. exists o2, r2. repeat split; auto; lia. }
    cbn [render needs_paren]. destruct (np ctx (EB o l r)) eqn:Enp.
    + eapply PAREN; [| apply render_starter, Hl | | exact HL].
      * intros rest' res' Hok' HL'. apply (NP 0 0); auto; lia.
      * intros rest'. rewrite <- app_assoc. apply render_starter, Hl.
    + apply (NP ctx minp); auto.
      destruct (Nat.ltb_spec (lb o) ctx) as [Hlt|Hge]; [|exact Hge].
      assert (must_paren ctx (EB o l r) = true) by (cbn; apply Nat.ltb_lt; exact Hlt).
      rewrite np_sound in Enp by assumption. discriminate.
  - (* unary *)
    assert (NP : forall ctx' minp' rest' res', ctx' <= lu u -> rest_ok ctx' rest' ->
               LoopR minp' (EU u x) rest' res' -> Parses minp' ((tu u ++ render (S (lu u)) x) ++ rest') res').
    { intros ctx' minp' rest' res' Hge Hok' HL'. rewrite <- app_assoc.
      econstructor; [|exact HL']. apply Pre_un.
      destruct (HPpos u) as (pre & post & Etab & Hpre). rewrite Etab.
      apply tryP_pre; [intros l0 t0 u0 Hin; eapply Hpre; eauto|].
      eapply TP_hit; [apply strip_app|].
      assert (Hok2 : rest_ok (S (lu u)) rest').
      { destruct Hok' as [H|[H|(o2 & r2 & H1 & H2 & H3)]]; [left|right;left|right;right]; auto. exists o2, r2. repeat split; auto; lia. }
      apply IHx; [exact Hwf | lia | exact Hok2 |]. apply L_stop, stop_none.
      destruct Hok' as [H|[H|(o2 & r2 & H1 & H2 & H3)]]; [left|right;left|right;right]; auto. exists o2, r2. repeat split; auto; lia. }
    cbn [render needs_paren]. destruct (np ctx (EU u x)) eqn:Enp.
    + eapply PAREN; [| | | exact HL].
      * intros rest' res' Hok' HL'. apply (NP 0); auto; lia.
      * destruct (HPsym _ _ _ (in_ptab u)) as (c & t & E & H). rewrite E. eexists c, _. split; [reflexivity|].
        unfold starter. replace (pfirst c) with true; [rewrite !orb_true_r; reflexivity|]. symmetry.
        unfold pfirst. apply existsb_exists. exists (lu u, tu u, u). split; [apply in_ptab|]. cbn. rewrite E. apply Ascii.eqb_refl.
      * intros rest'. rewrite <- app_assoc.
        destruct (HPsym _ _ _ (in_ptab u)) as (c & t & E & H). rewrite E. eexists c, _. split; [reflexivity|].
        unfold starter. replace (pfirst c) with true; [rewrite !orb_true_r; reflexivity|]. symmetry.
        unfold pfirst. apply existsb_exists. exists (lu u, tu u, u). split; [apply in_ptab|]. cbn. rewrite E. apply Ascii.eqb_refl.
    + apply (NP ctx minp); auto.
      destruct (Nat.ltb_spec (lu u) ctx) as [Hlt|Hge]; [|exact Hge].
      assert (must_paren ctx (EU u x) = true) by (cbn; apply Nat.ltb_lt; exact Hlt).
      rewrite np_sound in Enp by assumption. discriminate.
Qed.

Corollary roundtrip e : wf e -> exists n, forall f, n <= f -> climb f 0 (render 0 e) = Some (e, []).
Proof.
  intros Hwf. destruct complete as [C _]. apply C. rewrite <- (app_nil_r (render 0 e)).
  apply render_parses; [exact Hwf | lia | left; reflexivity |]. apply L_stop, stop_none. left; reflexivity.
Qed.
End CharClimb.
Print Assumptions roundtrip.
