(* Driver of the extracted model (avmodel.ml): one sub-command per interface; see each cmd_*. *)
open Avmodel

(* ---- conversions between OCaml values and the extracted inductives ---- *)
let rec pos_of_int n = if n = 1 then XH else if n land 1 = 1 then XI (pos_of_int (n lsr 1)) else XO (pos_of_int (n lsr 1))
let n_of_int n = if n = 0 then N0 else Npos (pos_of_int n)
let rec int_of_pos = function XH -> 1 | XO p -> 2 * int_of_pos p | XI p -> 2 * int_of_pos p + 1
let int_of_n = function N0 -> 0 | Npos p -> int_of_pos p
let rec nat_of_int n = if n <= 0 then O else S (nat_of_int (n - 1))

(* arbitrary-size decimal <-> positive (values up to i64 and beyond do not fit OCaml's 63-bit int) *)
let pos_of_decimal d : positive option =
  (* digits as int array, repeated division by two *)
  let a = Array.init (String.length d) (fun i -> Char.code d.[i] - 48) in
  let is_zero () = Array.for_all (fun x -> x = 0) a in
  let div2 () = let r = ref 0 in Array.iteri (fun i x -> let v = !r * 10 + x in a.(i) <- v / 2; r := v mod 2) a; !r in
  let bits = ref [] in
  while not (is_zero ()) do bits := div2 () :: !bits done;
  (* bits: most significant first *)
  match !bits with
  | [] -> None
  | _ :: rest -> Some (List.fold_left (fun p b -> if b = 1 then XI p else XO p) XH rest)
let z_of_string s : z =
  let neg = String.length s > 0 && s.[0] = '-' in
  let d = if neg then String.sub s 1 (String.length s - 1) else s in
  match pos_of_decimal d with None -> Z0 | Some p -> if neg then Zneg p else Zpos p
let decimal_of_pos p =
  (* bits most significant first, decimal digit list least significant first *)
  let rec bits p acc = match p with XH -> 1 :: acc | XO q -> bits q (0 :: acc) | XI q -> bits q (1 :: acc) in
  let dbl_add ds b = let c = ref b in let r = List.map (fun x -> let v = 2 * x + !c in c := v / 10; v mod 10) ds in
    if !c > 0 then r @ [!c] else r in
  let ds = List.fold_left dbl_add [0] (bits p []) in
  String.concat "" (List.rev_map string_of_int ds)
let string_of_z = function Z0 -> "0" | Zpos p -> decimal_of_pos p | Zneg p -> "-" ^ decimal_of_pos p
let string_of_n = function N0 -> "0" | Npos p -> decimal_of_pos p
let z_of_int i = z_of_string (string_of_int i)
let int_of_z = function Z0 -> 0 | Zpos p -> int_of_pos p | Zneg p -> - (int_of_pos p)

let ascii_of_char c = let n = Char.code c in
  Ascii (n land 1 <> 0, n land 2 <> 0, n land 4 <> 0, n land 8 <> 0, n land 16 <> 0, n land 32 <> 0, n land 64 <> 0, n land 128 <> 0)
let char_of_ascii (Ascii (a, b, c, d, e, f, g, h)) =
  let bit x k = if x then 1 lsl k else 0 in
  Char.chr (bit a 0 + bit b 1 + bit c 2 + bit d 3 + bit e 4 + bit f 5 + bit g 6 + bit h 7)
let str_of_string s : ascii list = List.init (String.length s) (fun i -> ascii_of_char s.[i])
let string_of_str (l : ascii list) = let b = Buffer.create 64 in List.iter (fun c -> Buffer.add_char b (char_of_ascii c)) l; Buffer.contents b
let rec cstring_of_string s (i : int) : Avmodel.string =
  if i >= String.length s then EmptyString else String (ascii_of_char s.[i], cstring_of_string s (i + 1))
let cstr s = cstring_of_string s 0
let rec string_of_cstring = function EmptyString -> "" | String (c, r) -> String.make 1 (char_of_ascii c) ^ string_of_cstring r

let hex_of_bytes (l : n list) =
  let b = Buffer.create 64 in List.iter (fun x -> Buffer.add_string b (Printf.sprintf "%02x" (int_of_n x))) l; Buffer.contents b
let split_on c s = String.split_on_char c s
let read_lines () = let r = ref [] in (try while true do r := input_line stdin :: !r done with End_of_file -> ()); List.rev !r

let read_file path =
  let ic = open_in_bin path in
  let n = in_channel_length ic in
  let s = really_input_string ic n in
  close_in ic; s

let list_of_string s =
  let r = ref [] in
  for i = String.length s - 1 downto 0 do r := n_of_int (Char.code s.[i]) :: !r done; !r

let rec eq_list a b = match a, b with
  | [], [] -> true
  | x :: a', y :: b' -> int_of_n x = int_of_n y && eq_list a' b'
  | _, _ -> false

let cmd_hex () =
  let dir = Sys.argv.(2) in
  let n = int_of_string Sys.argv.(3) in
  for i = 0 to n - 1 do
    let img = list_of_string (read_file (Filename.concat dir (string_of_int i ^ ".bin"))) in
    let hexp = Filename.concat dir (string_of_int i ^ ".hex") in
    if Sys.file_exists hexp then begin
      let file = list_of_string (read_file hexp) in
      let m = write img in
      let corr = if eq_list m file then "ok" else "MISMATCH" in
      let spec = if holds_C07 img file then "ok" else "FAIL" in
      Printf.printf "%d %s %s %d\n%!" i corr spec (List.length img)
    end else
      Printf.printf "%d noimpl noimpl %d\n%!" i (List.length img)
  done


(* ---- enc: instruction::process.  stdin as harness/src/enc.rs; stdout per case
   "<model: hex|ERR|PANIC|FUEL> <spec: hex|NONE> <decoded>" *)
let fuel = nat_of_int 200
let reduced_device = { default_device with opts = [Avr8l] }
let reg16_of = function 'X' -> RX | 'Y' -> RY | _ -> RZ
let parse_arg a : iop * warg =
  let idxf r k = match r, k with
    | 'X', 0 -> FX | 'X', 1 -> FXp | 'X', _ -> FmX | 'Y', 0 -> FY | 'Y', 1 -> FYp | 'Y', _ -> FmY
    | _, 0 -> FZ | _, 1 -> FZp | _, _ -> FmZ in
  let rest k = String.sub a k (String.length a - k) in
  match a.[0] with
  | 'r' -> let n = int_of_string (rest 1) in (OR8 (n_of_int n), WReg (z_of_int n))
  | 'e' -> let v = z_of_string (rest 1) in (OE (EConst v), WExp v)
  | 'n' -> (OE (EIdent (str_of_string (rest 1))), WOther)
  | '-' -> (OIndex (IPreDec (reg16_of a.[1])), WIdx (idxf a.[1] 2))
  | c when String.length a = 1 -> (OIndex (INone (reg16_of c)), WIdx (idxf c 0))
  | c when String.length a = 2 -> (OIndex (IPostInc (reg16_of c)), WIdx (idxf c 1))
  | c -> let v = z_of_string (rest 3) in
         (OIndex (IPostIncE (reg16_of c, EConst v)), (match c with 'Y' -> WIdxQ (true, v) | 'Z' -> WIdxQ (false, v) | _ -> WOther))

let words_hex (ws : z list) = String.concat "" (List.map (fun w -> let v = int_of_z w in Printf.sprintf "%02x%02x" (v land 255) (v lsr 8)) ws)
let show_warg = function
  | WReg n -> "r" ^ string_of_z n | WExp v -> "e" ^ string_of_z v
  | WIdx f -> (match f with FX -> "X" | FXp -> "X+" | FmX -> "-X" | FY -> "Y" | FYp -> "Y+" | FmY -> "-Y" | FZ -> "Z" | FZp -> "Z+" | FmZ -> "-Z")
  | WIdxQ (y, q) -> (if y then "Y+q" else "Z+q") ^ string_of_z q
  | WOther -> "?"

let cmd_enc () =
  let cf = ctx_new default_device and cr = ctx_new reduced_device in
  List.iter (fun line ->
    match split_on ' ' line with
    | [c; pc; name; args] ->
      let ctx, core =
        if String.length c > 2 && String.sub c 0 2 = "D:" then begin
          let name = String.sub c 2 (String.length c - 2) in
          match List.find_opt (fun (k, _) -> string_of_str k = name) devices with
          | Some (_, d) -> ctx_new d, (if is_avr8l d then Reduced else Full)
          | None -> prerr_endline ("unknown device " ^ name); exit 2
        end else if c = "R" then cr, Reduced else cf, Full in
      let pairs = if args = "-" then [] else List.map parse_arg (split_on ',' args) in
      let op = operation_of_name (str_of_string name) in
      let pcn = n_of_int (int_of_string pc) in
      let m = match process fuel ctx op (List.map fst pairs) pcn with
        | Ok bs -> hex_of_bytes bs | Err _ -> "ERR" | Panic -> "PANIC" | OutOfFuel -> "FUEL" in
      let sp = expect_at core (z_of_string pc) (cstr (String.lowercase_ascii name)) (List.map snd pairs) in
      let spec, dec = match sp with
        | Some ws -> words_hex ws, (match decode core ws with
                                    | Some (n, w) -> string_of_cstring n ^ ":" ^ String.concat "," (List.map show_warg w) | None -> "UNDECODABLE")
        | None -> "NONE", "-" in
      Printf.printf "%s %s %s\n" m spec dec
    | _ -> ()) (read_lines ())

(* ---- expr: document::expr + Expr::run.  stdin: hex of the text per line; stdout per case
   "<model sexp | NOPARSE>\t<model value | ERR | PANIC | FUEL | ->\t<spec value | FAIL | UNSPEC | ->" *)
let unhex_string h = String.init (String.length h / 2) (fun i -> Char.chr (int_of_string ("0x" ^ String.sub h (2 * i) 2)))
let eval_ctx () =
  let c = ctx_new default_device in
  { c with equs = [ (str_of_string "seven", EConst (z_of_int 7)); (str_of_string "big", EConst (z_of_string "1099511627776"));
                    (str_of_string "neg", EConst (z_of_int (-9))) ];
           labels = [ (str_of_string "lab", (SCode, n_of_int 100)) ] }
let eval_env (n : ascii list) : z option =
  match String.lowercase_ascii (string_of_str n) with
  | "seven" -> Some (z_of_int 7) | "big" -> Some (z_of_string "1099511627776") | "neg" -> Some (z_of_int (-9))
  | "lab" -> Some (z_of_int 100) | _ -> None
let cmd_expr () =
  let ctx = eval_ctx () in
  List.iter (fun line ->
    let text = unhex_string (String.trim line) in
    match parse_expr (str_of_string text) with
    | None -> print_string "NOPARSE\t-\t-\n"
    | Some e ->
      let v = match run (nat_of_int 100000) ctx e with
        | Ok v -> string_of_z v | Err _ -> "ERR" | Panic -> "PANIC" | OutOfFuel -> "FUEL" in
      let sp = match spec_eval eval_env e with
        | Some (Some v) -> string_of_z v | Some None -> "FAIL" | None -> "UNSPEC" in
      Printf.printf "%s\t%s\t%s\n" (string_of_str (show_expr e)) v sp) (read_lines ())

(* ---- build: builder::build_str.  stdin: hex of the source per line; stdout: canonical observation *)
let hex_of_string t = String.concat "" (List.init (String.length t) (fun i -> Printf.sprintf "%02x" (Char.code t.[i])))
let observe_build (r : build_result res) =
  match r with
  | Panic -> "PANIC" | OutOfFuel -> "FUEL"
  | Err None -> "ERR -" | Err (Some l) -> "ERR " ^ string_of_n l
  | Ok b ->
    let dash t = if t = "" then "-" else t in
    Printf.sprintf "OK %s %s %s %s %s %s %s" (dash (hex_of_bytes b.b_code)) (dash (hex_of_bytes b.b_eeprom))
      (string_of_n b.b_flash) (string_of_n b.b_eeprom_size) (string_of_n b.b_ram) (string_of_n b.b_ram_filling)
      (dash (String.concat "," (List.map (fun m -> hex_of_string (string_of_str m)) b.b_messages)))
let build_fuel = nat_of_int 400000
let cmd_build () =
  List.iter (fun line ->
    let text = unhex_string (String.trim line) in
    print_endline (observe_build (build_str build_fuel (str_of_string text)))) (read_lines ())

(* ---- buildfs: builder::build_file on a directory tree; the case format of harness/src/buildfs.rs *)
let split_on c s = if s = "-" then [] else String.split_on_char c s
let names_of p = List.filter (fun x -> x <> "") (String.split_on_char '/' p)
let rec prefixes = function [] -> [[]] | l -> l :: prefixes (List.rev (List.tl (List.rev l)))
let cmd_buildfs () =
  List.iter (fun line ->
    match String.split_on_char ' ' (String.trim line) with
    | cwd :: main :: paths :: dirs :: files :: _ ->
      let cwd = names_of (unhex_string cwd) in
      let dirs = List.map (fun d -> names_of (unhex_string d)) (split_on ',' dirs) in
      let files = List.map (fun kv -> match String.index_opt kv '=' with
          | Some i -> (names_of (unhex_string (String.sub kv 0 i)), unhex_string (String.sub kv (i + 1) (String.length kv - i - 1)))
          | None -> (names_of (unhex_string kv), "")) (split_on ',' files) in
      let all_dirs = List.sort_uniq compare (List.concat_map prefixes (cwd :: dirs @ List.map (fun (n, _) -> List.rev (List.tl (List.rev n))) (List.filter (fun (n, _) -> n <> []) files))) in
      let conv n = List.map str_of_string n in
      let fs = { fs_cwd = conv cwd; fs_dirs = List.map conv all_dirs; fs_files = List.map (fun (n, c) -> (conv n, str_of_string c)) files } in
      let paths = List.map (fun p -> str_of_string (unhex_string p)) (split_on ',' paths) in
      print_endline (observe_build (build_file fs build_fuel (str_of_string (unhex_string main)) paths))
    | _ -> print_endline "BADCASE") (read_lines ())

let () =
  match Sys.argv.(1) with
  | "build" -> cmd_build ()
  | "buildfs" -> cmd_buildfs ()
  | "expr" -> cmd_expr ()
  | "hex" -> cmd_hex ()
  | "enc" -> cmd_enc ()
  | c -> prerr_endline ("unknown command " ^ c); exit 2
