"""Runs source texts through builder::build_str (vh build) and the extracted model (avmodel build)."""
import concurrent.futures as cf

from . import common as C


def run_texts(vh, exe, texts, chunk=None, timeout=900):
    if chunk is None:
        chunk = max(20, min(1500, len(texts) // (2 * C.NCPU) + 1))
    chunks = [texts[i:i + chunk] for i in range(0, len(texts), chunk)]

    def one(ch):
        inp = "".join(t.encode("utf-8").hex() + "\n" for t in ch)
        a = C.vh(vh, ["build"], input=inp, timeout=timeout).split("\n")
        b = C.model(exe, ["build"], input=inp, timeout=timeout).split("\n")
        return [(t, a[i] if i < len(a) else "MISSING", b[i] if i < len(b) else "MISSING") for i, t in enumerate(ch)]
    out = []
    with cf.ThreadPoolExecutor(max_workers=C.NCPU) as ex:
        for r in ex.map(one, chunks):
            out += r
    return out


def parse_obs(o):
    """canonical observation -> dict"""
    f = o.split(" ")
    if f[0] == "OK" and len(f) == 8:
        dash = lambda x: "" if x == "-" else x
        return dict(kind="OK", code=dash(f[1]), eeprom=dash(f[2]), flash=int(f[3]), eesize=int(f[4]), ram=int(f[5]),
                    fill=int(f[6]), msgs=[bytes.fromhex(m).decode("utf-8", "replace") for m in dash(f[7]).split(",") if m])
    if f[0] == "ERR":
        return dict(kind="ERR", line=None if len(f) < 2 or f[1] == "-" else int(f[1]))
    return dict(kind=f[0])
