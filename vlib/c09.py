"""C09 - a macro call behaves as its body with the call's arguments substituted.
Search oracle (metamorphic, on the implementation): images of a program with macro definitions and calls == images of the
generator's own expansion (each @n replaced by the n-th argument's text in parentheses when it is an expression)."""
import random

from . import c14, progcheck as P, progrun

PROP = "C09"

BODIES = [
    (["  ldi @0, @1"], ["rh", "e8"]),
    (["  ldi @0, low(@1)", "  ldi @2, high(@1)"], ["rh", "e", "rh"]),
    (["  mov @0, @1", "  add @0, @0"], ["r", "r"]),
    (["  .dw @0, @0 * 2"], ["e"]),
    (["  .dw @0 * 3"], ["e"]),
    (["  .dw 2 * @0 - 1, -@0"], ["e"]),
    (["  ld @0, @1", "  st @1, @0"], ["r", "x"]),
    (["  ldd @0, @1"], ["r", "xq"]),
    (["  .if @0 > 5", "  .dw 1", "  .else", "  .dw 2", "  .endif"], ["e"]),
    (["  .if @1", "  inc @0", "  .elif @2", "  dec @0", "  .endif", "  nop"], ["r", "e", "e"]),
    (["  nop", "  .dseg", "  .byte 2", "  .cseg", "  ldi r16, @0", "  ret"], ["e8"]),
    (["  .eseg", "  .db @0", "  .cseg", "  nop"], ["e8"]),
    (["  nop"], []),
    ([".ifdef @0", "  .dw 1", ".else", "  .dw 2", ".endif"], ["flag"]),
    ([".ifndef @0", "  .dw @1", ".endif", "  nop"], ["flag", "e"]),
    (["  .dw @0 + 1"], ["sym"]),
    (["  .dq @0, @1, @2, @3, @4, @5, @6, @7, @8, @9"], ["e"] * 10),
    # the body is kept as TEXT, exactly as written: letter case, comment characters inside strings and character constants,
    # real trailing comments (also with an '@' in them), blanks and tabs
    (["  .db \"Hello, World\", @0"], ["e8"]),
    (["  .db \"a;b\", @0", "  .db @0, \"x//y\", \"/*z*/\""], ["e8"]),
    (["  cpi @0, ';'", "  ldi @0, '/'", "  subi @0, 'A'"], ["rh"]),
    (["  .db 'Z', @0 ; note: @0 is the second byte", "  .dw @0 // twice @0"], ["e8"]),
    (["\tLDI\t@0 ,\t@1\t; Mixed Case Comment", "  Mov R1 , @0", "  .db \"MiXeD\" , 'Q'"], ["rh", "e8"]),
    (["  .db \"@\", 64, \"e@x\"", "  ldi @0, '@'"], ["rh"]),
    (["Lbl_@0: nop", "  .dw LBL_@0, lbl_@0 + 1"], ["id"]),
    # bodies that begin with a segment directive (the expansion does not start in the caller's segment)
    ([".eseg", "  .db @0, 7", ".cseg", "  nop"], ["e8"]),
    ([".dseg", "  .byte 3", ".cseg", "  ldi r16, @0"], ["e8"]),
    ([".cseg", "  .dw @0"], ["e"]),
]
REGS = ["r0", "r7", "r15", "r16", "r20", "r31"]


def arg(rng, kind):
    if kind == "rh":
        return rng.choice(["r16", "r17", "r25", "R30"])
    if kind == "r":
        return rng.choice(REGS)
    if kind == "x":
        return rng.choice(["X", "X+", "-X", "Y+", "-Y", "Z", "z+", "-Z", "Y"])
    if kind == "xq":
        return rng.choice(["Y", "Z"]) + "+" + str(rng.randrange(0, 64))
    if kind == "id":
        arg.n = getattr(arg, "n", 0) + 1
        return "u%d" % arg.n
    if kind == "flag":
        # preprocessor flags are matched as written: the argument must arrive in the body with its letter case intact
        return rng.choice(["FlagA", "flaga", "FLAGA", "Flag_b", "flag_B", "NoSuchFlag"])
    if kind == "sym":
        return rng.choice(["Beta", "BETA", "alpha", "Alpha", "gamma_1"])
    t = c14.etree(rng, rng.choice([0, 1, 2, 3]))
    text = c14.render_expr(t, 0, c14.Plain())
    if kind == "e8":
        text = "low(%s)" % text
    return text


def is_expr(kind):
    return kind in ("e", "e8")


def gen_case(rng):
    """-> (program with macros, hand expansion)"""
    nm = rng.randrange(1, 4)
    macs = []
    for i in range(nm):
        body, kinds = rng.choice(BODIES)
        name = rng.choice(["mac%d", "Mac%d", "MAC%d", "m_%d"]) % i
        macs.append((name, list(body), kinds))
    # a macro that calls an earlier macro
    if rng.random() < 0.4 and macs:
        inner = macs[0]
        if len(inner[2]) <= 2:
            kinds = inner[2]
            macs.append(("outer", ["  nop", "  %s %s" % (inner[0].lower(), ", ".join("@%d" % j for j in range(len(kinds)))), "  nop"], kinds))
    defs, calls, expanded = [], [], []
    prelude = [".equ alpha = 5", ".equ Beta = 300", ".equ gamma_1 = 0", ".define FlagA", ".define Flag_b"]
    for name, body, kinds in macs:
        defs += [".macro %s" % name] + body + [rng.choice([".endmacro", ".endm"])]

    def expand(name, args):
        for mname, body, kinds in macs:
            if mname.lower() == name.lower():
                out = []
                for ln in body:
                    toks = ln.split()
                    if toks and any(toks[0].lower() == m[0].lower() for m in macs):
                        inner_args = [a.strip() for a in ln.split(None, 1)[1].split(",")] if len(toks) > 1 else []
                        # substitute first, then expand the inner call
                        sub = [substitute(a, args, kinds) for a in inner_args]
                        out += expand(toks[0], sub)
                    else:
                        out.append(substitute(ln, args, kinds))
                return out
        raise KeyError(name)

    def substitute(text, args, kinds):
        for j in reversed(range(len(args))):
            rep = "(%s)" % args[j] if j < len(kinds) and is_expr(kinds[j]) else args[j]
            text = text.replace("@%d" % j, rep)
        return text
    order = rng.random() < 0.25     # calls before the definitions
    body_calls = []
    labels = []
    for ci in range(rng.randrange(1, 5)):
        name, body, kinds = rng.choice(macs)
        args = [arg(rng, k) for k in kinds]
        spelled = rng.choice([name, name.lower(), name.upper()])
        # "at that point": the call may be the first thing after an .org, a segment switch or a label
        r = rng.random()
        ctx = []
        if r < 0.25:
            ctx = [".org %d" % (200 * (ci + 1) + rng.randrange(0, 50))]
        elif r < 0.35:
            ctx = [".dseg", ".byte 1", ".cseg"]
        elif r < 0.5:
            labels.append("here%d" % ci)
            ctx = ["here%d:" % ci]
        body_calls += ctx
        expanded += ctx
        body_calls.append("  %s %s" % (spelled, ", ".join(args)) if args else "  " + spelled)
        expanded += expand(name, args)
        if rng.random() < 0.3:
            body_calls.append("  nop")
            expanded.append("  nop")
    # repeated calls whose argument lists differ but whose texts concatenate to the same string
    if rng.random() < 0.3:
        digits = "".join(rng.choice("123456789") for _ in range(rng.choice([3, 4, 5])))
        i, j = sorted(rng.sample(range(1, len(digits)), 2))
        for cut in (i, j, i):
            a, b = digits[:cut], digits[cut:]
            body_calls.append("  collide %s, %s" % (a, b))
            expanded.append("  .dw %s, %s" % (a, b))
        defs += [".macro collide", "  .dw @0, @1", ".endm"]
    tail = ["  .dw " + ", ".join(labels)] if labels else []
    prog = prelude + (body_calls + tail + defs if order else defs + body_calls + tail)
    return "\n".join(prog) + "\n", "\n".join(prelude + expanded + tail) + "\n"


def segment_first_pairs():
    """(program, hand expansion): macro bodies that begin or end with .org / a segment directive, called at address 0 and elsewhere,
    and calls of other macros behind a segment directive or an .org inside a body"""
    pairs = []
    for pre in ("", " nop\n", ".org 0x30\n"):
        pairs.append((".macro at\n.org 0x40\n .dw @0\n.endm\n" + pre + " at 5\n nop\n", pre + ".org 0x40\n .dw (5)\n nop\n"))
        pairs.append((".macro ee\n.eseg\n .db @0\n.endm\n" + pre + " ee 9\n.cseg\n nop\n", pre + ".eseg\n .db (9)\n.cseg\n nop\n"))
        pairs.append((".macro ee\n.eseg\n .db @0, 1, 2\n.cseg\n.endm\n" + pre + " ee 9\n nop\n", pre + ".eseg\n .db (9), 1, 2\n.cseg\n nop\n"))
        pairs.append((".macro ee\n.eseg\n .db @0, 1, 2\n.endm\n" + pre + " ee 9\n .db 4\n.cseg\n nop\n", pre + ".eseg\n .db (9), 1, 2\n .db 4\n.cseg\n nop\n"))
        pairs.append((".macro var\n.dseg\nv@0: .byte 2\n.cseg\n.endm\n" + pre + " var 1\n var 2\n .dw v1, v2\n", pre + ".dseg\nv1: .byte 2\n.cseg\n.dseg\nv2: .byte 2\n.cseg\n .dw v1, v2\n"))
        pairs.append((".macro skipto\n.org @0\n.endm\n" + pre + " skipto 0x50\n .dw 1\n skipto 0x60\n .dw 2\n", pre + ".org (0x50)\n .dw 1\n.org (0x60)\n .dw 2\n"))
        pairs.append((".macro inner\n .dw @0, @0\n.endm\n.macro outer\n nop\n.dseg\n .byte 1\n.cseg\n inner @0\n inner 2\n.endm\n" + pre + " outer 7\n nop\n",
                      pre + " nop\n.dseg\n .byte 1\n.cseg\n .dw (7), (7)\n .dw (2), (2)\n nop\n"))
        pairs.append((".macro inner\n .dw @0\n.endm\n.macro outer\n inner 1\n.org 0x80\n inner 2\n.eseg\n .db 3\n.cseg\n inner 4\n.endm\n" + pre + " outer\n",
                      pre + " .dw (1)\n.org 0x80\n .dw (2)\n.eseg\n .db 3\n.cseg\n .dw (4)\n"))
    return pairs


def split_over_files(rng, prog, root):
    """the same macro program with its definitions moved into included files (one file, or one nested in another, included
    before or after the calls): a definition is a definition wherever it is written"""
    lines = prog.split("\n")
    defs, rest, cur = [], [], None
    for ln in lines:
        if cur is None and ln.lower().startswith(".macro"):
            cur = [ln]
        elif cur is not None:
            cur.append(ln)
            if ln.lower().startswith(".endm"):
                defs.append(cur)
                cur = None
        else:
            rest.append(ln)
    if not defs or cur is not None:
        return None
    files = {}
    first, second = defs[:max(1, len(defs) // 2)], defs[max(1, len(defs) // 2):]
    text = "\n".join(l for d in first for l in d) + "\n"
    if second and rng.random() < 0.7:
        files[root + "/lib/deep/more.inc"] = "\n".join(l for d in second for l in d) + "\n"
        inner = '.include "deep/more.inc"\n'
        text = inner + text if rng.random() < 0.5 else text + inner
        second = []
    files[root + "/lib/macros.inc"] = text
    body = rest + [l for d in second for l in d]
    at = rng.choice([0, len(body)]) if rng.random() < 0.6 else rng.randrange(0, len(rest) + 1)    # never inside a definition
    # keep the prelude (.equ / .define lines) in front: the bodies may test flags only at the call
    main = body[:at] + ['.include "lib/macros.inc"'] + body[at:]
    files[root + "/main.asm"] = "\n".join(main) + "\n"
    return dict(cwd=root, main="main.asm", paths=[], dirs=[root, root + "/lib", root + "/lib/deep"], files=files, missing=None)


def run_file_cases(res, vh, exe, rng, pairs, obs):
    from . import fsrun
    base = fsrun.work_root()
    cases = []
    for i, (prog, hand) in enumerate(pairs[:400 if res.tier == "quick" else 20000]):
        c = split_over_files(rng, prog, "%s/t%d" % (base, i))
        if c:
            cases.append((c, prog))
    try:
        rows = fsrun.run_cases(vh, exe, [c[0] for c in cases])
    finally:
        fsrun.cleanup()
    mism = [(c, a, b) for c, a, b in rows if not P.agree(a, b)]
    res.oblige("correspondence(extracted model): Files.build_file = builder::build_file on %d macro programs split over included files" % len(rows),
               not mism, "impl=%s model=%s" % (mism[0][1][:100], mism[0][2][:100]) if mism else "")
    for (case, prog), (_, a, _) in zip(cases, rows):
        x, y = progrun.parse_obs(a), progrun.parse_obs(obs[prog][0])
        if y["kind"] == "OK" and (x["kind"], x.get("code"), x.get("eeprom"), x.get("fill")) != (y["kind"], y.get("code"), y.get("eeprom"), y.get("fill")):
            src = "\n".join("--- %s\n%s" % (p[len(case["cwd"]) + 1:], t) for p, t in case["files"].items())
            P.fail(res, "builder::build_file", src, "the images of the one-file program: " + obs[prog][0][:120], a[:120], "definitions-in-includes")
    res.extra["distribution"]["split_over_files"] = len(cases)


def run(res):
    vh, exe = P.base(res, PROP)
    rng = random.Random(res.seed)
    pairs = [gen_case(rng) for _ in range(1500 if res.tier == "quick" else 500000)]
    # calls that expand to nothing (an empty body, a switched-off conditional, symbols only, a comment) - however many of them - are
    # not nesting: the calls after them expand as usual
    for n in (1, 10, 63, 64, 65, 66, 130, 300):
        for head, call in ((".macro e\n.endm\n", " e"), (".macro e\n.if 0\n nop\n.endif\n.endm\n", " e"), (".macro e\n ; @0\n.endm\n", " e 1"),
                           (".macro e\n.ifdef NOPE\n .dw @0\n.endif\n.endm\n", " e 5")):
            real = ".macro r\n .dw @0\n.endm\n"
            pairs.append((head + real + (call + "\n") * n + " r 7\n" + (call + "\n") * 2 + " r 8\n", " .dw (7)\n .dw (8)\n"))
        pairs.append((".macro e\n.equ k@0 = @0\n.endm\n.macro r\n .dw @0\n.endm\n" + "".join(" e %d\n" % i for i in range(n)) + " r k0\n",
                      "".join(".equ k%d = %d\n" % (i, i) for i in range(n)) + " .dw (k0)\n"))
        # nested: the empty calls stand inside another macro's body
        pairs.append((".macro e\n.endm\n.macro outer\n" + " e\n" * min(n, 70) + " .dw @0\n.endm\n outer 3\n outer 4\n", " .dw (3)\n .dw (4)\n"))
    # a definition in a branch that is NOT assembled defines nothing and touches no other macro; the one in the assembled branch counts
    for taken in (0, 1):
        a, b = " .dw 0xAAAA", " .dw 0xBBBB"
        pairs.append((".macro first\n .dw 1\n.endm\n.if %d\n.macro m\n%s\n.endm\n.else\n.macro m\n%s\n.endm\n.endif\n first\n m\n first\n" % (taken, a, b),
                      " .dw 1\n%s\n .dw 1\n" % (a if taken else b)))
        pairs.append((".macro first\n .dw @0\n.endm\n.if %d\n first 5\n.else\n.macro other\n .dw 9\n.endm\n.endif\n first 6\n" % taken,
                      (" .dw (5)\n" if taken else "") + " .dw (6)\n"))
        pairs.append((".macro keep\n .dw 7\n.endm\n.ifdef NOPE\n.macro shadow\n .dw 8\n.if 1\n nop\n.endif\n.endm\n.endif\n keep\n", " .dw 7\n"))
        pairs.append((" keep\n.macro keep\n .dw 7\n.endm\n.if 0\n.macro a\n nop\n.endm\n.macro b\n nop\n.endm\n.endif\n keep\n", " .dw 7\n .dw 7\n"))
    # a body that begins with .org / a segment directive, called at address 0 and elsewhere; calls of other macros BEHIND a segment
    # directive or an .org inside a body
    pairs += segment_first_pairs()
    # counted repetition: a macro that calls itself (or its partner) under a conditional on its parameter expands as many times as
    # the parameter says, and not at all when the call stands in the branch that is not assembled
    for n in (0, 1, 2, 3, 5, 10, 20, 40):
        pairs.append((".macro rep\n.if @0 > 0\n nop\n rep @0-1\n.endif\n.endm\n rep %d\n .dw 0x1234\n" % n, " nop\n" * n + " .dw 0x1234\n"))
        pairs.append((".macro down\n.if @0\n .dw @0\n DOWN @0-1\n.else\n .dw 0xE0E0\n.endif\n.endm\n down %d\n" % n,
                      "".join(" .dw %d\n" % i for i in range(n, 0, -1)) + " .dw 0xE0E0\n"))
        pairs.append((".macro ping\n.if @0 > 0\n .dw 0x1000 + @0\n pong @0-1\n.endif\n.endm\n.macro pong\n.if @0 > 0\n .dw 0x2000 + @0\n ping @0-1\n.endif\n.endm\n"
                      " ping %d\n nop\n" % n, "".join(" .dw 0x%d000 + %d\n" % (1 + (n - i) % 2, i) for i in range(n, 0, -1)) + " nop\n"))
    errs = [(".macro m\n nop\n.endm\n.if 0\n.macro gone\n nop\n.endm\n.endif\n gone\n", "undefined-macro"),
            (".macro m\n nop\n.endm\n undefined_macro_call\n", "undefined-macro"),
            (".macro m\n ldi r16, @0\n.endm\n m\n", "missing-argument"),
            (".macro m\n ldi @0, @1\n.endm\n m r16\n", "missing-argument"),
            (" neverdefined r1, r2\n", "undefined-macro")]
    obs = P.correspond(res, vh, exe, [p[0] for p in pairs] + [p[1] for p in pairs] + [e[0] for e in errs], "macro programs and their hand expansions")
    nok = 0
    for prog, hand in pairs:
        a, b = progrun.parse_obs(obs[prog][0]), progrun.parse_obs(obs[hand][0])
        if b["kind"] != "OK":
            continue      # the hand expansion itself is not a valid program (e.g. a value out of range): nothing to compare
        nok += 1
        if (a["kind"], a.get("code"), a.get("eeprom"), a.get("fill")) != (b["kind"], b.get("code"), b.get("eeprom"), b.get("fill")):
            P.fail(res, "builder::build_str", prog, "the images of the hand expansion: " + obs[hand][0][:140], obs[prog][0][:140], "expansion",
                   extra=dict(hand_expansion=hand))
    for text, kind in errs:
        if not obs[text][0].startswith("ERR"):
            P.fail(res, "builder::build_str", text, "a failed build (%s)" % kind, obs[text][0][:80], kind)
    res.extra["distribution"].update(pairs=len(pairs), hand_expansions_that_build=nok)
    run_file_cases(res, vh, exe, rng, pairs, obs)
    res.extra["exhaustive"] = False
    res.rule = ("1-3 macro definitions drawn from %d body shapes (instructions, data, low/high pairs, index forms, conditionals on "
                "parameters, bodies that switch to .dseg/.eseg and back, ten parameters), optionally one macro calling another, counted self- and mutual recursion, 1-4 "
                "calls in any letter case (before or after the definitions) with registers, index forms and expression trees of every "
                "precedence as arguments; oracle: equal images with the generator's own expansion in which every expression argument "
                "is substituted in parentheses; undefined macro and missing argument must fail" % len(BODIES))
    res.samples = [dict(program=pairs[0][0], hand_expansion=pairs[0][1], observation=obs[pairs[0][0]][0][:80])]
    res.assume = ["the hand expansion is computed by vlib/c09.py (textual substitution with parenthesised expression arguments)"]


match_known = P.match_known


def replay(path):
    def judge(vh, exe, i):
        rows = progrun.run_texts(vh, exe, [i["source"], i["hand_expansion"]])
        a, b = rows[0][1].split(" ")[:3], rows[1][1].split(" ")[:3]
        return None if a == b else (str(b), str(a))
    return P.replay_text(PROP, path, judge)
