(** src/context.rs (symbol tables, lookup order, letter case) and src/expr.rs (Expr::run and the
    get_* conversions), on i64 values represented as Z with every range check written out. *)
Require Import AvraV.Model.Base AvraV.Model.Ast AvraV.Model.Device.
Local Open Scope string_scope.
Open Scope Z_scope.

Definition i64_min : Z := -9223372036854775808.
Definition i64_max : Z := 9223372036854775807.
Definition in_i64 (z : Z) : bool := (i64_min <=? z) && (z <=? i64_max).
Definition two64 : Z := 18446744073709551616.
(** [x as u64] *)
Definition to_u64 (z : Z) : Z := z mod two64.
(** [x as i64] for x a u64 / the wrap of two's complement arithmetic *)
Definition wrap64 (z : Z) : Z := let u := z mod two64 in if u <=? i64_max then u else u - two64.

(** HashMap<String, V> as an association list: insert conses, lookup takes the first match. *)
Section Assoc.
  Context {V : Type}.
  Fixpoint lookup (k : str) (m : list (str * V)) : option V :=
    match m with
    | [] => None
    | (k', v) :: r => if str_eqb k k' then Some v else lookup k r
    end.
  Definition insert (k : str) (v : V) (m : list (str * V)) : list (str * V) := (k, v) :: m.
  Fixpoint remove (k : str) (m : list (str * V)) : list (str * V) :=
    match m with
    | [] => []
    | (k', v) :: r => if str_eqb k k' then remove k r else (k', v) :: remove k r
    end.
End Assoc.

Record ctx := {
  defines : list (str * expr);
  equs : list (str * expr);
  labels : list (str * (segt * N));
  defs : list (str * N);
  sets : list (str * expr);
  special : list (str * expr);
  dev : device
}.
Definition ctx_new (d : device) : ctx :=
  {| defines := []; equs := []; labels := []; defs := []; sets := []; special := []; dev := d |}.

(** getters of CommonContext: which tables lower-case the key at lookup *)
Definition get_define (c : ctx) (n : str) := lookup n (defines c).
Definition get_equ (c : ctx) (n : str) := lookup (lower n) (equs c).
Definition get_label (c : ctx) (n : str) := lookup (lower n) (labels c).
Definition get_def (c : ctx) (n : str) := lookup (lower n) (defs c).
Definition get_set (c : ctx) (n : str) := lookup (lower n) (sets c).
Definition get_special (c : ctx) (n : str) := lookup (lower n) (special c).

(** Context::get_expr: define > equ > set > special > label *)
Definition get_expr (c : ctx) (n : str) : option expr :=
  match get_define c n with Some e => Some e | None =>
  match get_equ c n with Some e => Some e | None =>
  match get_set c n with Some e => Some e | None =>
  match get_special c n with Some e => Some e | None =>
  match get_label c n with Some (_, a) => Some (EConst (Z.of_N a)) | None => None end end end end end.
Definition exist (c : ctx) (n : str) : bool :=
  match get_expr c n with Some _ => true | None => match get_def c n with Some _ => true | None => false end end.

Definition checked (z : Z) : res Z := if in_i64 z then Ok z else Err None.
Definition b2z (b : bool) : Z := if b then 1 else 0.

(** bit length of [value as u64] (the "log2" function of expr.rs) *)
Definition bitlen (u : Z) : Z := if u =? 0 then 0 else Z.log2 u + 1.

Definition eval_func (name : str) (v : Z) : res Z :=
  let u := to_u64 v in
  let is x := str_eqb (lower name) (lit x) in
  if is "low" then Ok (u mod 256)
  else if is "high" || is "byte2" then Ok ((u / 256) mod 256)
  else if is "byte3" then Ok ((u / 65536) mod 256)
  else if is "byte4" then Ok ((u / 16777216) mod 256)
  else if is "lwrd" then Ok (u mod 65536)
  else if is "hwrd" then Ok ((u / 65536) mod 65536)
  else if is "page" then Ok ((u / 65536) mod 32)
  else if is "exp2" then (if (v <? 0) || (63 <? v) then Err None else Ok (wrap64 (2 ^ v)))
  else if is "log2" then Ok (bitlen u)
  else Err None.

Definition eval_bin (o : binop) (l r : Z) : res Z :=
  match o with
  | BAdd => checked (l + r)
  | BSub => checked (l - r)
  | BMul => checked (l * r)
  | BDiv => if r =? 0 then Err None else checked (Z.quot l r)
  | BRem => if r =? 0 then Err None else if (l =? i64_min) && (r =? -1) then Err None else Ok (Z.rem l r)
  | BAnd => Ok (Z.land l r)
  | BOr => Ok (Z.lor l r)
  | BXor => Ok (Z.lxor l r)
  | BShl => if (r <? 0) || (63 <? r) then Err None else Ok (wrap64 (l * 2 ^ r))
  | BShr => if (r <? 0) || (63 <? r) then Err None else Ok (Z.shiftr l r)
  | BLt => Ok (b2z (l <? r))
  | BLe => Ok (b2z (l <=? r))
  | BGt => Ok (b2z (r <? l))
  | BGe => Ok (b2z (r <=? l))
  | BEq => Ok (b2z (l =? r))
  | BNe => Ok (b2z (negb (l =? r)))
  | BLAnd => Ok (b2z (negb (l =? 0) && negb (r =? 0)))
  | BLOr => Ok (b2z (negb (l =? 0) || negb (r =? 0)))
  end.

Definition eval_un (o : unop) (v : Z) : res Z :=
  match o with
  | UMinus => checked (- v)
  | UBitNot => Ok (- v - 1)
  | ULogNot => Ok (b2z (v =? 0))
  end.

(** Expr::run.  [depth] counts the symbol definitions entered (an .equ whose body names another
    symbol is evaluated at the use site); beyond MAX_SYMBOL_DEPTH = 64 the evaluation fails.  Fuel is
    the model's termination measure: one unit per node and per indirection. *)
Definition max_symbol_depth : nat := 64.
Fixpoint run_n (fuel : nat) (depth : nat) (c : ctx) (e : expr) : res Z :=
  match fuel with
  | O => OutOfFuel
  | S f =>
    match e with
    | EIdent n =>
        match get_expr c n with
        | Some (EConst a) => Ok a
        | Some e' => if (max_symbol_depth <=? depth)%nat then Err None else run_n f (S depth) c e'
        | None => Err None
        end
    | EConst z => Ok z
    | EFunc fn a =>
        match fn with
        | EIdent name => do v <- run_n f depth c a; eval_func name v
        | _ => Err None
        end
    | EBin l o r => do a <- run_n f depth c l; do b <- run_n f depth c r; eval_bin o a b
    | EUn o x => do v <- run_n f depth c x; eval_un o v
    end
  end.
Definition run (fuel : nat) (c : ctx) (e : expr) : res Z := run_n fuel 0 c e.

(** get_byte / get_words / get_double_words / get_quad_words / get_bit_index, as functions of the value *)
Definition byte_of (v : Z) : res Z := if (255 <? v) || (v <? -128) then Err None else Ok (v mod 256).
Definition word_of (v : Z) : res Z := if (65535 <? v) || (v <? -32768) then Err None else Ok (v mod 65536).
Definition dword_of (v : Z) : res Z :=
  if (4294967295 <? v) || (v <? -2147483648) then Err None else Ok (v mod 4294967296).
Definition qword_of (v : Z) : res Z := Ok (to_u64 v).
Definition bit_of (v : Z) : res Z := if (v <? 0) || (7 <? v) then Err None else Ok v.

(** little-endian bytes of a non-negative value *)
Fixpoint le_bytes (n : nat) (v : Z) : list N :=
  match n with O => [] | S m => Z.to_N (v mod 256) :: le_bytes m (v / 256) end.
