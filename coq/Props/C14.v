(** C14 - surface syntax that carries no meaning never changes the output.
    PARTIAL: the proved parts are below; spacing around operands, commas and operators, trailing
    comments after a statement and the radix of numbers rest on the metamorphic search and the
    correspondence of ./check C14 (DESIGN.md section 3, C14).  Proofs: Proofs/SurfaceProofs.v. *)
From Coq Require Import List ZArith NArith String Ascii.
Import ListNotations.
Require Import AvraV.Model.Base AvraV.Model.Ast AvraV.Model.Eval AvraV.Model.Encode AvraV.Model.Grammar.
Require Import AvraV.Model.Lines AvraV.Model.Parse AvraV.Model.Passes AvraV.Proofs.SurfaceProofs AvraV.Proofs.SymProofs.

(** letter case of mnemonics, function names, index registers, the r of a register *)
Theorem C14_mnemonic_case : forall n n', lower n = lower n' -> operation_of_name n = operation_of_name n'.
Proof. exact mnemonic_case. Qed.
Theorem C14_function_case : forall name name' v, lower name = lower name' -> eval_func name v = eval_func name' v.
Proof. exact function_case. Qed.
Theorem C14_register_case : forall d r c,
  reg8 ("r"%char :: d) = reg8 ("R"%char :: d) /\ reg16 (c :: r) = reg16 (lower_ascii c :: r).
Proof. intros. split; [apply (reg8_case d r) | apply reg16_case]. Qed.
(** symbol references: see C10_case *)
Print Assumptions C14_register_case.

(** comment-only lines (blanks, then ';' or '//' and ANY text) and blank lines parse to the empty
    line, and the line loop passes over an empty line without touching the assembly state - in
    every mode it can be in when it reads a line (also inside conditionals; while a macro body is
    recorded or a branch is skipped, lines are not interpreted at all) *)
Theorem C14_comment_lines : forall b t, Forall blank b ->
  parse_line (b ++ ";"%char :: t) = Some EmptyLine /\ parse_line (b ++ "/"%char :: "/"%char :: t) = Some EmptyLine.
Proof. exact comment_line_empty. Qed.
Theorem C14_blank_lines : forall b, Forall blank b -> parse_line b = Some EmptyLine.
Proof. exact blank_line_empty. Qed.
Theorem C14_empty_line_noop : forall fuel inc g n l r skipped st,
  parse_line l = Some EmptyLine -> parse_iter fuel inc (S g) ((n, l) :: r) skipped st = parse_iter fuel inc g r false st.
Proof. exact empty_line_noop. Qed.
Print Assumptions C14_comment_lines.

(** LF versus CR LF: a text without stray carriage returns splits into the same lines either way *)
Theorem C14_crlf : forall s, no_cr s -> split_lines (crlf s) = split_lines s.
Proof. exact crlf_same_lines. Qed.
Print Assumptions C14_crlf.

Definition code_of (src : string) : option (list N) :=
  match build_str 200 (list_ascii_of_string src) with Ok b => Some (b_code b) | _ => None end.
Definition nl := String (Ascii.ascii_of_N 10) EmptyString.
Definition crnl := String (Ascii.ascii_of_N 13) nl.
Example C14_examples :
  code_of ("ldi r16, low(0x1F)" ++ nl) = code_of (" LDI  R16 ,LOW ( $1f ) ; c" ++ crnl ++ "// x" ++ crnl) /\
  code_of ("ldi r16, 31" ++ nl) = code_of ("ldi r16, 0b11111 /* c */" ++ nl ++ nl) /\
  code_of ("ldi r16, 31" ++ nl) = code_of ("ldi r16, 037" ++ nl) /\
  code_of ("ldi r16, 31" ++ nl) = Some [15; 225]%N.
Proof. vm_compute. repeat split; reflexivity. Qed.

(** Radix (Proofs/RadixProofs.v).  For every value k below 2^63 and every choice of letter case for each digit, the
    texts  $hex, 0xhex, 0bbinary, 0octal  and the decimal text of k - followed by anything that is not an identifier
    character - are all read by the number rule of the grammar as k: the radix a number is written in, and the case of
    its hexadecimal digits, never change its value. *)
Require Import AvraV.Model.Grammar AvraV.Model.Show AvraV.Model.Climb AvraV.Proofs.RadixProofs.
Theorem C14_radix : forall k rest up, (k < i64_limit)%N -> hd_ok (fun c => negb (is_idch c)) rest = true ->
  num_parse (lit "$" ++ render_base 16 up k ++ rest) = Some (k, rest) /\
  num_parse (lit "0x" ++ render_base 16 up k ++ rest) = Some (k, rest) /\
  num_parse (lit "0b" ++ render_base 2 up k ++ rest) = Some (k, rest) /\
  num_parse (lit "0" ++ render_base 8 up k ++ rest) = Some (k, rest) /\
  num_parse (show_N k ++ rest) = Some (k, rest).
Proof. exact radix_invariance. Qed.
Print Assumptions C14_radix.
Example C14_radix_example :
  render_base 16 (fun _ => true) 48879 = lit "BEEF" /\ render_base 16 (fun _ => false) 48879 = lit "beef" /\ render_base 2 (fun _ => false) 5 = lit "101" /\ render_base 8 (fun _ => false) 8 = lit "10".
Proof. vm_compute. repeat split; reflexivity. Qed.

(** Blanks and parentheses in expressions (Proofs/ClimbProofs.v [drender_parses], instance in Proofs/ExprRoundTrip.v).
    A decorated tree [dcexpr] records, besides the expression, a string of blanks at every place where the grammar
    skips them (before and after a binary operator, inside parentheses on both sides, between a function name and
    its parenthesis) and any number of parenthesis pairs around any sub-expression; [dwfe] demands only that the
    blank strings consist of spaces / tabs and that an operator binding more loosely than its position allows stands
    inside parentheses.  THEOREM: whatever blanks and redundant parentheses are written, the text parses to the same
    expression ([erase_e] forgets the decoration) - alone, and followed by any neutral text. *)
Require Import AvraV.Proofs.ClimbProofs AvraV.Proofs.ExprRoundTrip.
Theorem C14_expression_blanks_and_parentheses : forall d, dwfe 0 d -> parse_expr (drender_e d) = Some (conv (erase_e d)).
Proof. exact surface_roundtrip. Qed.
Theorem C14_expression_blanks_in_context : forall d rest, dwfe 0 d -> neutral_rest rest ->
  expr_rule (drender_e d ++ rest) = Some (conv (erase_e d), rest).
Proof. exact surface_roundtrip_ctx. Qed.
Print Assumptions C14_expression_blanks_and_parentheses.
Example C14_blanks_example :
  let sp := lit "  " in let tab := [Ascii.ascii_of_N 9] in
  let d := DB BMul (DP sp (DB BAdd (DNum 1) tab [] (DId (lit "x"))) []) [] sp (DF (lit "low") sp [] (DP [] (DNum 2) tab) sp) in
  drender_e d = (lit "(" ++ sp ++ lit "1" ++ tab ++ lit "+x)*" ++ sp ++ lit "low" ++ sp ++ lit "((2" ++ tab ++ lit ")" ++ sp ++ lit ")")%list /\
  erase_e d = EB BMul (EB BAdd (ENum 1) (EId (lit "x"))) (EF (lit "low") (ENum 2)).
Proof. vm_compute. split; reflexivity. Qed.
