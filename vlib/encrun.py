"""Runs instruction-level cases through the implementation (vh enc), the extracted model and the
ISA specification (avmodel enc) and classifies every case."""
import concurrent.futures as cf

from . import common as C


def run_cases(vh, exe, cases, chunk=20000):
    """-> list of (case, impl, model, spec, decoded)"""
    chunks = [cases[i:i + chunk] for i in range(0, len(cases), chunk)]

    def one(ch):
        inp = "\n".join(ch) + "\n"
        a = C.vh(vh, ["enc"], input=inp).split("\n")
        b = C.model(exe, ["enc"], input=inp).split("\n")
        if len(a) < len(ch) or len(b) < len(ch):
            raise RuntimeError("enc: short output (%d/%d of %d)" % (len(a), len(b), len(ch)))
        rows = []
        for i, cse in enumerate(ch):
            m = b[i].split(" ")
            rows.append((cse, a[i], m[0], m[1], m[2] if len(m) > 2 else "-"))
        return rows
    out = []
    with cf.ThreadPoolExecutor(max_workers=C.NCPU) as ex:
        for r in ex.map(one, chunks):
            out += r
    return out


def judge(res, rows, prop, what):
    """correspondence (model == implementation) and the specification oracle on every row.
    Oracle: spec gives words -> implementation must emit exactly those bytes;
            spec gives NONE  -> implementation must return an error (ERR)."""
    mism = []
    nfail = 0
    for cse, impl, model, spec, dec in rows:
        f = cse.split(" ")
        res.count(cse, nontrivial=True)
        if impl != model:
            mism.append((cse, impl, model))
        bad = (impl != "ERR") if spec == "NONE" else (impl != spec)
        if bad:
            nfail += 1
            if len(res.failing) < 400:
                res.failing.append(dict(
                    interface="instruction::process",
                    input=dict(case=cse, core=f[0], pc=int(f[1]), mnemonic=f[2], operands=f[3]),
                    expected=("an error: the ISA cannot encode this statement" if spec == "NONE"
                              else "bytes %s (%s)" % (spec, dec)),
                    observed=impl,
                    cls="%s:%s" % (f[2], "accepted-illegal" if spec == "NONE" and impl != "PANIC" else
                                   "panic" if impl == "PANIC" else "rejected-legal" if impl == "ERR" else "wrong-bytes")))
    res.oblige("correspondence(extracted model): Encode.process = instruction::process on %d %s cases" % (len(rows), what),
               not mism, "first of %d mismatches: %s impl=%s model=%s" % ((len(mism),) + mism[0]) if mism else "")
    return nfail


def standard_run(res, prop, cases, keep, what, rule, exhaustive_note, assume):
    """common skeleton of the instruction-level checks C01/C03/C04"""
    import json
    from . import gen, encgen
    vh = C.build_harness("debug")
    try:
        changed = gen.gen_all(vh)
        res.oblige("tie A: Gen/OpTable.v, Gen/Devices.v regenerated from /repo", True, "rewritten: %s" % changed)
    except gen.GenError as e:
        res.oblige("tie A: Gen/*.v regenerated from /repo", False, str(e))
    pr = C.check_props(prop)
    for n, ok, note in pr["obligations"]:
        res.oblige("theorem " + n, ok, note)
    if pr.get("broken") and not pr["obligations"]:
        res.oblige("coq build", False, pr["broken"])
    exe = C.build_model()
    if callable(cases):
        cases = cases(vh)
    rows = run_cases(vh, exe, cases)
    rows = [r for r in rows if keep(r)]
    judge(res, rows, prop, what)
    dist = {}
    for r in rows:
        t = encgen.tag(r[0]) + ("/legal" if r[3] != "NONE" else "/illegal")
        dist[t] = dist.get(t, 0) + 1
    res.extra["distribution"] = dist
    res.extra["exhaustive"] = True
    res.extra["exhaustive_note"] = exhaustive_note
    res.rule = rule
    res.samples = [dict(case=r[0], implementation=r[1], model=r[2], isa_spec=r[3], decoded=r[4]) for r in rows[:2] + rows[-2:]]
    res.assume = assume
    return rows


def replay(prop, path):
    import json
    r = json.load(open(path))
    i = r.get("input")
    if not i:
        print("replay: broken obligation %r - re-run ./check %s" % (r.get("obligation"), prop))
        return 1
    vh = C.build_harness("debug")
    exe = C.build_model()
    rows = run_cases(vh, exe, [i["case"]])
    cse, impl, model, spec, dec = rows[0]
    bad = (impl != "ERR") if spec == "NONE" else (impl != spec)
    if bad:
        print("VIOLATION property=%s replay=%s" % (prop, path))
        return 1
    print("replay: property now holds on this input")
    return 0


def match_known(f, entry):
    return entry.get("class") is not None and f.get("cls") == entry.get("class")
