(** Pass 0 leaves no macro call in a code segment (so the hypothesis [plain_seg] of the layout
    theorems is met by every program that passes pass 0 and pass 1). *)
From Coq Require Import List NArith ZArith Bool Lia.
Import ListNotations.
Require Import AvraV.Model.Base AvraV.Model.Ast AvraV.Model.Device AvraV.Model.Eval AvraV.Model.Encode.
Require Import AvraV.Model.Parse AvraV.Model.Passes AvraV.Proofs.LayoutProofs.
Open Scope N_scope.

Definition cplain (sg : segment) : Prop := seg_t sg = SCode -> plain_seg sg.
Definition code_plain (l : list segment) : Prop := Forall cplain l.

Lemma upd_last_plain f l : code_plain l -> (forall s, cplain s -> cplain (f s)) -> code_plain (upd_last f l).
Proof.
  unfold code_plain, upd_last. intros H Hf. apply Forall_rev in H. destruct (rev l) as [|x r]; [constructor|].
  inversion H; subst. change (f x :: r) with ([f x] ++ r)%list. rewrite rev_app_distr. apply Forall_app. split.
  - apply Forall_rev. assumption.
  - cbn. constructor; [auto | constructor].
Qed.

Lemma push_plain st cp it : code_plain (segs st) -> plain (cp, it) -> code_plain (segs (push_item st cp it)).
Proof.
  intros H Hp. unfold push_item, with_segs. cbn [segs]. apply upd_last_plain; [exact H|].
  intros s Hs Ht. cbn [seg_t] in Ht. unfold plain_seg. cbn [items]. apply Forall_app. split; [apply Hs; exact Ht | constructor; [exact Hp | constructor]].
Qed.

Lemma add_plain st s : code_plain (segs st) -> cplain s -> code_plain (segs (add_segment st s)).
Proof. intros H Hs. unfold add_segment, with_segs. cbn [segs]. apply Forall_app. split; [exact H | constructor; [exact Hs | constructor]]. Qed.

Lemma empty_cplain t a : cplain {| items := []; seg_t := t; address := a |}.
Proof. intros _. constructor. Qed.

Section P0.
Variable fuel : nat.
Variable inc : str -> pstate -> res pstate.
Variable macroses : list (str * list (N * str)).

Lemma pass0_items_nil depth st : pass0_items fuel inc macroses depth [] st = Ok st.
Proof. destruct depth; reflexivity. Qed.

Lemma macro_expand_segs line name ops st st0 segments :
  macro_expand fuel inc macroses line name ops st = Ok (st0, segments) -> segs st0 = segs st.
Proof.
  unfold macro_expand. destruct (lookup name macroses); [|discriminate]. intros H. cbv zeta in H.
  destruct (too_long _); [discriminate|].
  apply bind_ok in H. destruct H as (r & _ & H). injection H as <- _. reflexivity.
Qed.

Lemma fold_res_ok {S X} (f : S -> X -> res S) l r v :
  fold_left (fun acc x => do a <- acc; f a x) l r = Ok v -> exists a, r = Ok a.
Proof. apply fold_bind_ok. Qed.

Theorem pass0_items_plain : forall depth its st st',
  code_plain (segs st) -> pass0_items fuel inc macroses depth its st = Ok st' -> code_plain (segs st').
Proof.
  induction depth as [|d IHd].
  - induction its as [|[cp it] rest IH]; intros st st' Hc H.
    + rewrite pass0_items_nil in H. injection H as <-. exact Hc.
    + cbn [pass0_items] in H. apply bind_ok in H. destruct H as (st1 & H1 & H).
      apply (IH st1 st'); [|exact H].
      destruct it as [z | k ops | a e | a | a e | ops | op args | lab]; try (injection H1 as <-; apply push_plain; [exact Hc | exact I]).
      destruct op; try discriminate; injection H1 as <-; apply push_plain; try exact Hc; exact I.
  - induction its as [|[cp it] rest IH]; intros st st' Hc H.
    + rewrite pass0_items_nil in H. injection H as <-. exact Hc.
    + cbn [pass0_items] in H. apply bind_ok in H. destruct H as (st1 & H1 & H).
      apply (IH st1 st'); [|exact H]. clear H IH.
      destruct it as [z | k ops | a e | a | a e | ops | op args | lab]; try (injection H1 as <-; apply push_plain; [exact Hc | exact I]).
      destruct op; try (injection H1 as <-; apply push_plain; [exact Hc | exact I]).
      apply bind_ok in H1. destruct H1 as ([st0 segments] & He & H1).
      apply macro_expand_segs in He.
      destruct segments as [|s0 more]; [injection H1 as <-; rewrite He; exact Hc|].
      apply bind_ok in H1. destruct H1 as (st2 & H2 & H1).
      assert (Hc2 : code_plain (segs st2)).
      { eapply IHd; [|exact H2]. destruct (negb _ || negb _); [apply add_plain; [rewrite He; exact Hc | apply empty_cplain] | rewrite He; exact Hc]. }
      clear H2 He Hc. revert st2 Hc2 H1. induction more as [|sg more IHm]; intros st2 Hc2 H1; cbn [fold_left] in H1.
      * injection H1 as <-. exact Hc2.
      * cbn [bind] in H1. pose proof (fold_res_ok _ _ _ _ H1) as (st3 & E3). rewrite E3 in H1.
        apply (IHm st3); [|exact H1].
        destruct (seg_t sg) eqn:Et.
        -- eapply IHd; [|exact E3]. apply add_plain; [exact Hc2 | apply empty_cplain].
        -- injection E3 as <-. apply add_plain; [exact Hc2|]. intros Hx. congruence.
        -- injection E3 as <-. apply add_plain; [exact Hc2|]. intros Hx. congruence.
Qed.

Theorem pass0_plain depth parsed st0 st :
  code_plain (segs st0) -> pass0 fuel inc macroses depth parsed st0 = Ok st -> code_plain (segs st).
Proof.
  unfold pass0. revert st0. induction parsed as [|sg parsed IH]; intros st0 Hc H; cbn [fold_left] in H.
  - injection H as <-. exact Hc.
  - cbn [bind] in H. pose proof (fold_res_ok _ _ _ _ H) as (st1 & E1). rewrite E1 in H.
    apply (IH st1); [|exact H].
    destruct (seg_t sg) eqn:Et.
    + eapply pass0_items_plain; [|exact E1]. apply add_plain; [exact Hc | apply empty_cplain].
    + injection E1 as <-. apply add_plain; [exact Hc|]. intros Hx. congruence.
    + injection E1 as <-. apply add_plain; [exact Hc|]. intros Hx. congruence.
Qed.
End P0.

(** in a segment that is not code pass 1 refuses every instruction - macro calls included *)
Lemma p1fold_noncode_plain t : t <> SCode -> forall its s s', p1fold t its (Ok s) = Ok s' -> Forall plain its.
Proof.
  intros Ht. induction its as [|[cp it] its IH]; intros s s' H; [constructor|].
  unfold p1fold in H. cbn [fold_left bind] in H. pose proof (fold_bind_ok _ _ _ _ H) as (s1 & E1). rewrite E1 in H.
  constructor; [|eapply IH; exact H].
  destruct it; try exact I. destruct s as [[c cur] out]. unfold pass1_item in E1. cbn [fst] in E1. destruct t; try discriminate. congruence.
Qed.

Theorem pass1_plain c segments r1 : code_plain segments -> pass1 c segments = Ok r1 -> Forall plain_seg segments.
Proof.
  intros Hc H. rewrite pass1_unfold in H. apply bind_ok in H. destruct H as (r & F & _). clear r1.
  revert F. generalize (Ok (c, 0, ram_start (dev c), 0, @nil segment) : res p1state). revert r.
  induction segments as [|sg segs IH]; intros r r0 F; [constructor|].
  inversion Hc as [|? ? Hs Hc']; subst. cbn [fold_left] in F.
  pose proof (p1steps_ok _ _ _ F) as (s1 & E1). rewrite E1 in F.
  constructor; [|eapply IH; eauto].
  destruct (seg_t sg) eqn:Et; [apply Hs; exact Et | |].
  all: pose proof (p1step_ok _ _ _ E1) as ([[[[c0 co] dofs] eo] out] & ->); unfold p1step in E1; cbn [bind] in E1;
       apply bind_ok in E1; destruct E1 as (x & Hx & _); unfold pass1_segment in Hx;
       apply bind_ok in Hx; destruct Hx as (start & _ & Hx); apply bind_ok in Hx; destruct Hx as (y & Hy & _);
       eapply (p1fold_noncode_plain (seg_t sg)); [rewrite Et; discriminate | exact Hy].
Qed.
