(** C13: the device gate of pass 2 against the flag documentation, for every set of flags. *)
From Coq Require Import List NArith ZArith Bool Lia.
Import ListNotations.
Require Import AvraV.Model.Base AvraV.Model.Ast AvraV.Model.Device AvraV.Model.Eval AvraV.Model.Encode.
Require Import AvraV.Model.Parse AvraV.Model.Passes AvraV.Spec.GateSpec AvraV.Gen.OpTable.

Lemma pointer_index a : pointer_of a = index_reg a.
Proof. destruct a as [|i|]; try reflexivity. Qed.

Lemma forms_forallb d args :
  forallb (fun a => match index_reg a with Some RX => allow d NoXreg | Some RY => allow d NoYreg | _ => true end) args
  = (negb (uses_x args) || allow d NoXreg) && (negb (uses_y args) || allow d NoYreg).
Proof.
  unfold uses_x, uses_y. induction args as [|a args IH]; [reflexivity|].
  cbn [forallb existsb]. rewrite IH.
  destruct a as [n|[r|r|r e|r]|e]; try destruct r; cbn [index_reg pointer_of];
    destruct (allow d NoXreg), (allow d NoYreg);
    destruct (existsb (fun a => match pointer_of a with Some RX => true | _ => false end) args);
    destruct (existsb (fun a => match pointer_of a with Some RY => true | _ => false end) args); reflexivity.
Qed.

Theorem gate_spec d o args : check_instruction d o args = available d o args.
Proof.
  unfold available, check_instruction, check_operation, all_flags.
  cbn [existsb].
  destruct o; cbn [disabled is_load_store andb orb];
    rewrite ?forms_forallb; unfold allow;
    try (match goal with |- context [has_operands args] => destruct args; cbn [has_operands] end);
    rewrite ?andb_false_r, ?orb_false_r, ?orb_false_l, ?andb_true_r;
    repeat match goal with |- context [has d ?f] => destruct (has d f) end;
    try reflexivity;
    try (destruct (uses_x args), (uses_y args); reflexivity);
    try (unfold has_displacement;
         destruct (existsb (fun a => match a with OIndex (IPostIncE _ _) => true | _ => false end) args), (uses_x args), (uses_y args); reflexivity).
Qed.

(** the device enters the encoder only through the reduced-core flag, and only for lds/sts *)
Lemma process_v_core a op vs pc : match op with OLds | OSts => False | _ => True end ->
  process_v a op vs pc = process_v false op vs pc.
Proof. destruct op; intros H; try contradiction; destruct a; reflexivity. Qed.

Lemma get_expr_dev c d n : get_expr (ctx_set_device c d) n = get_expr c n.
Proof. reflexivity. Qed.
Lemma run_n_dev c d : forall f k e, run_n f k (ctx_set_device c d) e = run_n f k c e.
Proof.
  induction f as [|f IH]; intros k e; [reflexivity|]. destruct e as [n|z|fn a|l o r|o x]; cbn [run_n].
  - rewrite get_expr_dev. destruct (get_expr c n) as [[| | | |]|]; try reflexivity;
      destruct (max_symbol_depth <=? k)%nat; try reflexivity; apply IH.
  - reflexivity.
  - destruct fn; try reflexivity. rewrite IH. reflexivity.
  - rewrite !IH. reflexivity.
  - rewrite IH. reflexivity.
Qed.
Lemma view_dev fuel c d a : view_of fuel (ctx_set_device c d) a = view_of fuel c a.
Proof.
  unfold view_of. f_equal.
  - destruct a as [|i|e]; try reflexivity. unfold get_val, run. apply run_n_dev.
  - destruct a as [|i|e]; try reflexivity. destruct i; try reflexivity. cbn [get_index]. unfold run. rewrite run_n_dev. reflexivity.
Qed.

Theorem device_irrelevant fuel c d op args pc :
  match op with OLds | OSts => False | _ => True end ->
  process fuel (ctx_set_device c d) op args pc = process fuel c op args pc.
Proof.
  intros H. unfold process.
  rewrite (process_v_core (is_avr8l (dev (ctx_set_device c d))) op _ pc H), (process_v_core (is_avr8l (dev c)) op _ pc H).
  f_equal. apply map_ext. intros a. apply view_dev.
Qed.
