From Coq Require Import List Arith Lia Bool.
Import ListNotations.

Section Climb.
Variable binop unop atom : Type.
Variable lb : binop -> nat.
Variable lu : unop -> nat.

Inductive tok := TA (a:atom) | TB (o:binop) | TU (u:unop) | TL | TR.
Inductive expr := EA (a:atom) | EB (o:binop) (l r:expr) | EU (u:unop) (e:expr).
Definition pres := option (expr * list tok).

Fixpoint loop (rec : nat -> list tok -> pres) (g:nat) (minp:nat) (acc:expr) (ts:list tok) : pres :=
  match g with O => None | S g' =>
    match ts with
    | TB o :: r =>
        if minp <=? lb o then
          match rec (S (lb o)) r with
          | Some (e, r') => loop rec g' minp (EB o acc e) r'
          | None => Some (acc, ts)
          end
        else Some (acc, ts)
    | _ => Some (acc, ts)
    end
  end.

Definition prefix_atom (rec : nat -> list tok -> pres) (ts : list tok) : pres :=
  match ts with
  | TU u :: r => match rec (S (lu u)) r with Some (e, r') => Some (EU u e, r') | None => None end
  | TL :: r => match rec 0 r with Some (e, TR :: r') => Some (e, r') | _ => None end
  | TA a :: r => Some (EA a, r)
  | _ => None
  end.

Fixpoint climb (f:nat) (minp:nat) (ts:list tok) {struct f} : pres :=
  match f with O => None | S f' =>
    match prefix_atom (climb f') ts with None => None | Some (e0, r0) => loop (climb f') f' minp e0 r0 end
  end.

Definition needs_paren (ctx:nat) (e:expr) : bool :=
  match e with EA _ => false | EB o _ _ => lb o <? ctx | EU u _ => lu u <? ctx end.

Fixpoint render (ctx:nat) (e:expr) : list tok :=
  let b := match e with
    | EA a => [TA a]
    | EB o l r => render (lb o) l ++ TB o :: render (S (lb o)) r
    | EU u x => TU u :: render (S (lu u)) x
    end in
  if needs_paren ctx e then TL :: b ++ [TR] else b.

(* relational big-step, successful paths only *)
Inductive Parses : nat -> list tok -> expr * list tok -> Prop :=
| P_mk minp ts e0 r0 res : Pre ts (e0, r0) -> LoopR minp e0 r0 res -> Parses minp ts res
with Pre : list tok -> expr * list tok -> Prop :=
| Pre_atom a r : Pre (TA a :: r) (EA a, r)
| Pre_un u r e r' : Parses (S (lu u)) r (e, r') -> Pre (TU u :: r) (EU u e, r')
| Pre_par r e r' : Parses 0 r (e, TR :: r') -> Pre (TL :: r) (e, r')
with LoopR : nat -> expr -> list tok -> expr * list tok -> Prop :=
| L_stop minp acc ts : (forall o r, ts = TB o :: r -> lb o < minp) -> LoopR minp acc ts (acc, ts)
| L_step minp acc o r e r' res : minp <= lb o -> Parses (S (lb o)) r (e, r') ->
     LoopR minp (EB o acc e) r' res -> LoopR minp acc (TB o :: r) res.

Scheme Parses_ind' := Induction for Parses Sort Prop
with Pre_ind' := Induction for Pre Sort Prop
with LoopR_ind' := Induction for LoopR Sort Prop.
Combined Scheme parses_mut from Parses_ind', Pre_ind', LoopR_ind'.

Definition ok_rest (ctx:nat) (rest:list tok) := forall o r, rest = TB o :: r -> lb o <= ctx.

Lemma render_noparen ctx e : needs_paren ctx e = false ->
  render ctx e = match e with
    | EA a => [TA a]
    | EB o l r => render (lb o) l ++ TB o :: render (S (lb o)) r
    | EU u x => TU u :: render (S (lu u)) x end.
Proof. destruct e; cbn [render]; intros ->; reflexivity. Qed.

Lemma render_paren ctx e : needs_paren ctx e = true -> render ctx e = TL :: render 0 e ++ [TR].
Proof.
  intros H. assert (H0: needs_paren 0 e = false) by (destruct e; cbn; auto).
  rewrite (render_noparen 0 e H0). destruct e; cbn [render]; rewrite H; reflexivity.
Qed.

Theorem render_parses : forall e ctx minp rest res,
  minp <= ctx -> ok_rest ctx rest -> LoopR minp e rest res ->
  Parses minp (render ctx e ++ rest) res.
Proof.
  induction e as [a | o l IHl r IHr | u x IHx]; intros ctx minp rest res Hm Hok HL.
  - cbn. econstructor; [constructor | exact HL].
  - (* binary *)
    assert (NP : forall ctx' minp' rest' res', minp' <= ctx' -> lb o >= ctx' -> ok_rest ctx' rest' ->
               LoopR minp' (EB o l r) rest' res' -> Parses minp' (render ctx' (EB o l r) ++ rest') res').
    { intros ctx' minp' rest' res' Hm' Hge Hok' HL'.
      rewrite render_noparen by (cbn; apply Nat.ltb_ge; lia).
      rewrite <- app_assoc. cbn [app].
      apply IHl; [lia | intros o' r' E; inversion E; subst; lia |].
      eapply L_step; [lia | | exact HL'].
      apply IHr; [lia | intros o' r' E; specialize (Hok' _ _ E); lia |].
      apply L_stop. intros o' r' E. specialize (Hok' _ _ E). lia. }
    destruct (needs_paren ctx (EB o l r)) eqn:Hp.
    + rewrite render_paren by exact Hp. cbn [app]. rewrite <- app_assoc. cbn [app].
      econstructor; [| exact HL]. apply Pre_par.
      apply NP; [lia | lia | intros o' r' E; inversion E |].
      apply L_stop. intros o' r' E; inversion E.
    + apply NP; auto. cbn in Hp. apply Nat.ltb_ge in Hp. lia.
  - (* unary *)
    assert (NP : forall ctx' minp' rest' res', lu u >= ctx' -> ok_rest ctx' rest' ->
               LoopR minp' (EU u x) rest' res' -> Parses minp' (render ctx' (EU u x) ++ rest') res').
    { intros ctx' minp' rest' res' Hge Hok' HL'.
      rewrite render_noparen by (cbn; apply Nat.ltb_ge; lia). cbn [app].
      econstructor; [| exact HL']. apply Pre_un.
      apply IHx; [lia | intros o' r' E; specialize (Hok' _ _ E); lia |].
      apply L_stop. intros o' r' E. specialize (Hok' _ _ E). lia. }
    destruct (needs_paren ctx (EU u x)) eqn:Hp.
    + rewrite render_paren by exact Hp. cbn [app]. rewrite <- app_assoc. cbn [app].
      econstructor; [| exact HL]. apply Pre_par.
      apply NP; [lia | intros o' r' E; inversion E |].
      apply L_stop. intros o' r' E; inversion E.
    + apply NP; auto. cbn in Hp. apply Nat.ltb_ge in Hp. lia.
Qed.


Theorem complete :
  (forall minp ts res, Parses minp ts res -> exists n, forall f, n <= f -> climb f minp ts = Some res) /\
  (forall ts res, Pre ts res -> exists n, forall f, n <= f -> prefix_atom (climb f) ts = Some res) /\
  (forall minp acc ts res, LoopR minp acc ts res -> exists n, forall f g, n <= f -> n <= g -> loop (climb f) g minp acc ts = Some res).
Proof.
  apply parses_mut.
  - intros minp ts e0 r0 res _ [n1 H1] _ [n2 H2]. exists (S (n1 + n2)). intros f Hf.
    destruct f as [|f']; [lia|]. cbn [climb]. rewrite H1 by lia. apply H2; lia.
  - intros a r. exists 0. intros f _. reflexivity.
  - intros u r e r' _ [n H]. exists n. intros f Hf. cbn [prefix_atom]. rewrite H by lia. reflexivity.
  - intros r e r' _ [n H]. exists n. intros f Hf. cbn [prefix_atom]. rewrite H by lia. reflexivity.
  - intros minp acc ts Hs. exists 1. intros f g _ Hg. destruct g as [|g']; [lia|]. cbn [loop].
    destruct ts as [|[a|o|u| |] r]; try reflexivity.
    specialize (Hs o r eq_refl). destruct (Nat.leb_spec minp (lb o)); [lia | reflexivity].
  - intros minp acc o r e r' res Hle _ [n1 H1] _ [n2 H2]. exists (S (n1 + n2)). intros f g Hf Hg.
    destruct g as [|g']; [lia|]. cbn [loop].
    destruct (Nat.leb_spec minp (lb o)); [| lia]. rewrite H1 by lia. apply H2; lia.
Qed.

Corollary roundtrip e : exists n, forall f, n <= f -> climb f 0 (render 0 e) = Some (e, []).
Proof.
  destruct complete as [C _]. apply C. rewrite <- (app_nil_r (render 0 e)).
  apply render_parses; [lia | intros o r E; inversion E |]. apply L_stop. intros o r E; inversion E.
Qed.
End Climb.
Print Assumptions roundtrip.
