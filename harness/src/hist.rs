//! C17: histories of builds inside ONE process.  stdin: hex of a source per line.
//! For every source prints (tab separated): the observation when built in the given order, in
//! reverse order, and every distinct observation seen when 8 threads build all sources
//! concurrently, each thread in its own rotation of the list.
use crate::build::observe;
use crate::util::{read_stdin, unhex};
use std::collections::BTreeSet;
use std::sync::{Arc, Mutex};

pub fn main(args: &[String]) -> i32 {
    let threads: usize = args.get(0).and_then(|x| x.parse().ok()).unwrap_or(8);
    let sources: Vec<String> = read_stdin()
        .lines()
        .map(|l| String::from_utf8(unhex(l.trim())).unwrap_or_default())
        .collect();
    let n = sources.len();
    let fwd: Vec<String> = sources.iter().map(|s| observe(s)).collect();
    let mut rev: Vec<String> = vec![String::new(); n];
    for i in (0..n).rev() {
        rev[i] = observe(&sources[i]);
    }
    let seen: Arc<Mutex<Vec<BTreeSet<String>>>> = Arc::new(Mutex::new(vec![BTreeSet::new(); n]));
    let src = Arc::new(sources);
    let mut hs = vec![];
    for t in 0..threads {
        let src = src.clone();
        let seen = seen.clone();
        hs.push(std::thread::Builder::new().stack_size(64 << 20).spawn(move || {
            for k in 0..n {
                let i = (k * (2 * t + 1) + t * 7) % n.max(1);
                let o = observe(&src[i]);
                seen.lock().unwrap()[i].insert(o);
            }
        }).unwrap());
    }
    for h in hs {
        let _ = h.join();
    }
    let seen = seen.lock().unwrap();
    for i in 0..n {
        let c: Vec<String> = seen[i].iter().cloned().collect();
        println!("{}\t{}\t{}", fwd[i], rev[i], c.join("|"));
    }
    0
}

/// C17: concurrent `build_file` calls.  stdin: one configuration per line, `<main path hex> <include dirs: hex,hex|->`
/// (the files exist already).  Prints per configuration (tab separated): the observation of a build on its own, and every
/// distinct observation seen when `threads` threads build all configurations `rounds` times at overlapping moments.
pub fn main_fs(args: &[String]) -> i32 {
    use avra_lib::builder::build_file;
    use std::path::PathBuf;
    let threads: usize = args.get(0).and_then(|x| x.parse().ok()).unwrap_or(8);
    let rounds: usize = args.get(1).and_then(|x| x.parse().ok()).unwrap_or(20);
    let text = |h: &str| String::from_utf8(unhex(h)).unwrap_or_default();
    let cfgs: Vec<(PathBuf, std::collections::BTreeSet<PathBuf>)> = read_stdin()
        .lines()
        .filter(|l| !l.trim().is_empty())
        .map(|l| {
            let f: Vec<&str> = l.split_whitespace().collect();
            let dirs = match f.get(1) {
                Some(&"-") | None => Default::default(),
                Some(d) => d.split(',').map(|x| PathBuf::from(text(x))).collect(),
            };
            (PathBuf::from(text(f[0])), dirs)
        })
        .collect();
    let one = |c: &(PathBuf, std::collections::BTreeSet<PathBuf>)| {
        let (m, d) = (c.0.clone(), c.1.clone());
        crate::build::render(std::panic::catch_unwind(move || build_file(m, d)))
    };
    let n = cfgs.len();
    let alone: Vec<String> = cfgs.iter().map(|c| one(c)).collect();
    let seen: Arc<Mutex<Vec<BTreeSet<String>>>> = Arc::new(Mutex::new(vec![BTreeSet::new(); n]));
    let cfgs = Arc::new(cfgs);
    let mut hs = vec![];
    for t in 0..threads {
        let cfgs = cfgs.clone();
        let seen = seen.clone();
        hs.push(std::thread::Builder::new().stack_size(64 << 20).spawn(move || {
            for k in 0..rounds * n.max(1) {
                let i = (k + t) % n.max(1);
                let c = &cfgs[i];
                let (m, d) = (c.0.clone(), c.1.clone());
                let o = crate::build::render(std::panic::catch_unwind(move || build_file(m, d)));
                seen.lock().unwrap()[i].insert(o);
            }
        }).unwrap());
    }
    for h in hs {
        let _ = h.join();
    }
    let seen = seen.lock().unwrap();
    for i in 0..n {
        let c: Vec<String> = seen[i].iter().cloned().collect();
        println!("{}\t{}", alone[i], c.join("|"));
    }
    0
}
