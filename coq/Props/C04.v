(** C04 - operands the ISA cannot encode are rejected, never mis-encoded.
    Property theorems only; proofs are in Proofs/Rej*.v and Proofs/Enc*.v. *)
From Coq Require Import List ZArith NArith String.
Import ListNotations.
Require Import AvraV.Model.Base AvraV.Model.Ast AvraV.Model.Device AvraV.Model.Eval AvraV.Model.Encode AvraV.Spec.Isa.
Require Import AvraV.Proofs.EncCheck AvraV.Proofs.EncProofs AvraV.Proofs.RejCheck AvraV.Proofs.RejProofs AvraV.Gen.Devices.
Local Open Scope string_scope.
Local Open Scope Z_scope.

(** [sound_at c name ws] (Proofs/RejCheck.v): if the encoder yields machine code for the statement
    "name ws" then the ISA table encodes exactly that statement and the bytes are that encoding;
    otherwise the result is an error value (never a panic).

    BOUNDED statement, the bound is part of the theorem: for every mnemonic of the assembler and
    every operand list of the finite window [window] - no operand; one operand; two operands with
    every register r0..r31, every index form, displacements around both ends of 0..63, and values
    around every field boundary (-129..-120, -10..70, 120..135, 185..195, 250..262 densely, the
    powers of two, the 16-, 22-, 32- and 64-bit limits); three operands from a small set - on the
    full core, and on the reduced core for lds/sts (for the other mnemonics on the reduced core:
    the sub-window [window_small], see [window_reduced]).  The sweep is exhaustive over that window and kernel-checked.
    What is NOT proved here: the same for operand values outside the window (see DESIGN.md, C04:
    there the claim rests on the range lemma C04_guards below, on C03_unreachable for relative
    operands and on the correspondence run). *)
Theorem C04_window_full : forall name ws,
  In name all_names -> In ws window -> sound_at Full name ws = true.
Proof. exact window_sound_full. Qed.
Print Assumptions C04_window_full.
Theorem C04_window_reduced : forall name ws,
  In name all_names -> In ws (window_reduced name) -> sound_at Reduced name ws = true.
Proof. exact window_sound_reduced. Qed.
Print Assumptions C04_window_reduced.

(** The value guards every operand passes through reject everything outside their field, for all
    of Z (unbounded): 8-bit immediates, 6-/5-bit unsigned fields read through get_byte, bit numbers. *)
Theorem C04_guards : forall (v : Z),
  ((v < -128 \/ 255 < v) -> get_byte (Ok v) = Err None) /\
  (forall mx, (mx <= 127)%N -> (v < 0 \/ Z.of_N mx < v) -> small_field mx (Ok v) = Err None) /\
  ((v < 0 \/ 7 < v) -> get_bit_index (Ok v) = Err None).
Proof. exact guards_reject. Qed.
Print Assumptions C04_guards.

(** Converse direction (from C01): everything the ISA allows is accepted with its exact encoding, so
    acceptance and legality coincide on the window. *)
Example C04_examples :
  sound_at Full "movw" [WReg 17; WReg 19] = true /\
  is_ok (process 3 (ctx_new default_device) OMovw [OR8 17; OR8 19] 0) = false /\
  is_ok (process 3 (ctx_new default_device) OFmul [OR8 24; OR8 25] 0) = false /\
  is_ok (process 3 (ctx_new default_device) OSbrc [OR8 1; OE (EConst (-1))] 0) = false /\
  is_ok (process 3 (ctx_new default_device) ONop [OR8 1; OR8 2] 0) = false /\
  is_ok (process 3 (ctx_new default_device) OMov [OR8 1] 0) = false /\
  is_ok (process 3 (ctx_new default_device) OLdi [OR8 16; OE (EConst 255)] 0) = true /\
  In "movw" all_names /\ (40000 <? N.of_nat (List.length window))%N = true.
Proof. vm_compute. repeat split; try reflexivity. repeat (first [left; reflexivity | right]). Qed.
