(** C05 - constant expressions evaluate with the documented operator semantics.
    Property theorems only; proofs are in Proofs/EvalProofs.v. *)
From Coq Require Import List ZArith NArith Bool String.
Import ListNotations.
Require Import AvraV.Model.Base AvraV.Model.Ast AvraV.Model.Device AvraV.Model.Eval AvraV.Model.Grammar.
Require Import AvraV.Spec.ExprSpec AvraV.Proofs.EvalProofs AvraV.Gen.PrecTable AvraV.Gen.Devices.
Local Open Scope Z_scope.

(** Semantics.  For every symbol table [c] - reading the symbols' values off the table itself
    ([env]) - every expression tree evaluates to exactly the value the documented operator table
    defines ([Spec/ExprSpec.spec_eval]: 64-bit signed arithmetic, comparison and logical operators
    yield 0/1, ~ is the bitwise complement, truncating / and %, the byte/word selectors and exp2), and
    evaluation fails exactly where the table says the build must fail (division or remainder by
    zero, overflow, shift amounts outside 0..63, unknown symbols).  Unbounded in the tree. *)
Theorem C05_eval : forall (c : ctx) (env : str -> option Z),
  (forall n f r, run f c (EIdent n) = r -> r <> OutOfFuel -> r = to_res (env n)) ->
  forall f e r s, run f c e = r -> r <> OutOfFuel -> spec_eval env e = Some s -> r = to_res s.
Proof. exact run_spec. Qed.
Check C05_eval : forall (c : ctx) (env : str -> option Z),
  (forall n f r, run f c (EIdent n) = r -> r <> OutOfFuel -> r = to_res (env n)) ->
  forall f e r s, run f c e = r -> r <> OutOfFuel -> spec_eval env e = Some s -> r = to_res s.
Print Assumptions C05_eval.

(** Operator by operator (all operand values in Z). *)
Theorem C05_binary : forall o l r, eval_bin o l r = to_res (spec_bin o l r).
Proof. exact bin_spec. Qed.
Theorem C05_unary : forall o v, eval_un o v = to_res (spec_un o v).
Proof. exact un_spec. Qed.
Theorem C05_function : forall name v r, spec_fn (fn_of name) v = Some r -> eval_func name v = to_res r.
Proof. exact fn_spec. Qed.
Print Assumptions C05_binary.
Print Assumptions C05_function.

(** Precedence.  The operator table regenerated from the grammar of the working tree places every
    binary operator on the documented level, lists every binary operator exactly once, and puts
    the three unary operators above all of them. *)
Definition binop_code (o : binop) : N :=
  match o with BAdd => 0 | BSub => 1 | BMul => 2 | BDiv => 3 | BRem => 4 | BAnd => 5 | BXor => 6 | BOr => 7 | BShl => 8
             | BShr => 9 | BLt => 10 | BLe => 11 | BGt => 12 | BGe => 13 | BEq => 14 | BNe => 15 | BLAnd => 16 | BLOr => 17 end%N.
Theorem C05_precedence_table :
  forallb (fun e => Nat.eqb (fst (fst e)) (doc_level_bin (snd e))) itab = true /\
  forallb (fun e => Nat.eqb (fst (fst e)) (doc_level_un (snd e))) ptab = true /\
  map (fun e => binop_code (snd e)) itab = [17; 16; 7; 6; 5; 14; 15; 10; 11; 12; 13; 8; 9; 0; 1; 2; 3; 4]%N /\
  length ptab = 3%nat.
Proof. vm_compute. repeat split; reflexivity. Qed.

(** Parsing.  [cexpr] trees (identifiers of the grammar, constants below 2^63, function calls, the
    18 binary and 3 unary operators); [render_np np] prints a tree with an arbitrary parenthesisation
    policy [np]; [np_sound np]: the policy parenthesises at least every operand whose operator binds
    more loosely than its position allows by the documented table of levels - binary operators
    left-associative, unary operators above all binary ones ([np_min] prints exactly those, [np_all]
    parenthesises every compound operand).  THEOREM: for every such printer and every tree, the
    grammar of the model - the precedence-climbing parser peg generates, instantiated with the
    operator table regenerated from src/document.rs on every run - reads the printed text back as
    that same tree, consuming all of it: a text means what the documented precedence and
    associativity say, for all 18+3 operators and any nesting.  (Proofs/ClimbProofs.v, generic in
    the tables; Proofs/ExprRoundTrip.v, the instance.) *)
Require Import AvraV.Model.Climb AvraV.Proofs.ClimbProofs AvraV.Proofs.ExprRoundTrip.
Theorem C05_parse : forall np e, np_sound np -> wfe e -> parse_expr (render_np np 0 e) = Some (conv e).
Proof. exact parse_roundtrip. Qed.
Print Assumptions C05_parse.
Theorem C05_parse_minimal : forall e, wfe e -> parse_expr (render_np np_min 0 e) = Some (conv e).
Proof. intros e H. apply parse_roundtrip; [exact np_min_sound | exact H]. Qed.
(** ... also when other text follows (no identifier character right after; next non-blank neither '(' nor an operator character) *)
Theorem C05_parse_in_context : forall np e rest, np_sound np -> wfe e -> neutral_rest rest ->
  expr_rule (render_np np 0 e ++ rest) = Some (conv e, rest).
Proof. exact climb_roundtrip_ctx. Qed.
Print Assumptions C05_parse_in_context.
(** ... and whatever blanks are written where the grammar skips them and however many redundant parentheses are added
    (decorated trees [dcexpr]; see Props/C14.v for the statement in words) *)
Theorem C05_parse_any_blanks_and_parentheses : forall d, dwfe 0 d -> parse_expr (drender_e d) = Some (conv (erase_e d)).
Proof. exact surface_roundtrip. Qed.
(** the levels used by the printers are the documented ones *)
Theorem C05_levels : forall o, ExprRoundTrip.lb o = doc_level_bin o.
Proof. intros o. destruct o; reflexivity. Qed.
Example C05_parse_example :
  render_np np_min 0 (EB BSub (EB BSub (ENum 10) (ENum 4)) (EB BMul (ENum 3) (EU UMinus (EId (lit "x"))))) = lit "10-4-3*-x" /\
  render_np np_min 0 (EB BSub (ENum 10) (EB BSub (ENum 4) (ENum 3))) = lit "10-(4-3)" /\
  render_np np_min 0 (EB BMul (EB BAdd (ENum 1) (ENum 2)) (EU UBitNot (EB BOr (ENum 1) (ENum 2)))) = lit "(1+2)*~(1|2)".
Proof. vm_compute. repeat split; reflexivity. Qed.

(** Examples: the parser and the evaluator together on precedence-sensitive texts. *)
Definition value_of (text : string) : option (res Z) :=
  match parse_expr (list_ascii_of_string text) with
  | Some e => Some (run 50 (ctx_new default_device) e)
  | None => None
  end.
Example C05_examples :
  value_of "~1*2" = Some (Ok (-4)) /\ value_of "2 * ~1 * 3" = Some (Ok (-12)) /\ value_of "3 != 2" = Some (Ok 1) /\
  value_of "1 << 2 | 1 << 1" = Some (Ok 6) /\ value_of "10 - 4 - 3" = Some (Ok 3) /\ value_of "-7 / 2" = Some (Ok (-3)) /\
  value_of "1 << 64" = Some (Err None) /\ value_of "1/0" = Some (Err None) /\
  value_of "9223372036854775807 + 1" = Some (Err None) /\ value_of "high(0x1234)" = Some (Ok 18) /\
  value_of "1 < 2 == 1" = Some (Ok 1) /\ value_of "6 & 3 ^ 1 | 8" = Some (Ok 11).
Proof. vm_compute. repeat split; reflexivity. Qed.

(** An operand of an instruction that is a negated NAME beginning with x, y or z (-yval, -Zero) is that expression -
    the pre-decrement form of an index register is the register letter on its own (-Y), not the first letter of a name.
    (The code read the first letter as the register and then failed on the rest of the name; repaired, see
    known_findings.json.) *)
Require Import AvraV.Model.Lines AvraV.Proofs.MacroProofs.
Theorem C05_negated_name_operand : forall x c rest e rest', is_idch c = true ->
  expr_rule ("-"%char :: x :: c :: rest) = Some (e, rest') ->
  instruction_op ("-"%char :: x :: c :: rest) = Some (OE e, rest').
Proof. exact negated_name_operand. Qed.
Print Assumptions C05_negated_name_operand.
Example C05_negated_name_example :
  instruction_op (list_ascii_of_string "-yval") = Some (OE (EUn UMinus (EIdent (list_ascii_of_string "yval"))), []) /\
  instruction_op (list_ascii_of_string "-y") = Some (OIndex (IPreDec RY), []).
Proof. split; vm_compute; reflexivity. Qed.
