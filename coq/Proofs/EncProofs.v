(** C01 / C03 / C04: the encoder model against the ISA table, for all operands. *)
From Coq Require Import List NArith ZArith Bool String Lia ZifyBool.
Import ListNotations.
Require Import AvraV.Model.Base AvraV.Model.Ast AvraV.Model.Device AvraV.Model.Eval AvraV.Model.Encode.
Require Import AvraV.Spec.Isa AvraV.Proofs.EncCheck AvraV.Proofs.EncLift AvraV.Proofs.EncSweepDefs AvraV.Proofs.EncBig.
Require AvraV.Proofs.EncSweep0 AvraV.Proofs.EncSweep1 AvraV.Proofs.EncSweep2 AvraV.Proofs.EncSweep3 AvraV.Proofs.EncSweep4.
Require AvraV.Proofs.EncSweep5 AvraV.Proofs.EncSweep6 AvraV.Proofs.EncSweep7 AvraV.Proofs.EncSweep8.
Local Open Scope string_scope.
Local Open Scope Z_scope.
Ltac Zify.zify_post_hook ::= Z.div_mod_to_equations.

Lemma chunks_cover : small_spellings =
  (chunk 0 12 ++ chunk 12 14 ++ chunk 14 16 ++ chunk 16 18 ++ chunk 18 36 ++ chunk 36 38 ++ chunk 38 94 ++
   chunk 94 96 ++ chunk 96 156)%list.
Proof. vm_compute. reflexivity. Qed.

Lemma small_checked s : In s spellings -> small_sp s = true -> check_sp s = true.
Proof.
  intros Hin Hs. assert (H : In s small_spellings) by (apply filter_In; auto).
  rewrite chunks_cover in H. repeat (apply in_app_or in H; destruct H as [H | H]).
  - exact (proj1 (forallb_forall _ _) EncSweep0.sweep s H).
  - exact (proj1 (forallb_forall _ _) EncSweep1.sweep s H).
  - exact (proj1 (forallb_forall _ _) EncSweep2.sweep s H).
  - exact (proj1 (forallb_forall _ _) EncSweep3.sweep s H).
  - exact (proj1 (forallb_forall _ _) EncSweep4.sweep s H).
  - exact (proj1 (forallb_forall _ _) EncSweep5.sweep s H).
  - exact (proj1 (forallb_forall _ _) EncSweep6.sweep s H).
  - exact (proj1 (forallb_forall _ _) EncSweep7.sweep s H).
  - exact (proj1 (forallb_forall _ _) EncSweep8.sweep s H).
Qed.

Lemma big_list : filter (fun s => negb (small_sp s)) spellings =
  [ {| sp_name := "jmp"; sp_core := CAny; sp_ops := [PExp k_ (KAddr 6)] |};
    {| sp_name := "call"; sp_core := CAny; sp_ops := [PExp k_ (KAddr 6)] |};
    {| sp_name := "lds"; sp_core := CFull; sp_ops := [PReg d_ RAny; PExp k_ (KAddr 0)] |};
    {| sp_name := "sts"; sp_core := CFull; sp_ops := [PExp k_ (KAddr 0); PReg d_ RAny] |} ].
Proof. vm_compute. reflexivity. Qed.

Lemma jmp_any c name : (name = "jmp" \/ name = "call") -> forall ws, fits [PExp k_ (KAddr 6)] ws = true -> ok_at c name ws = true.
Proof.
  intros Hn ws Hf. unfold fits in Hf. destruct ws as [|w [|w' ws]]; cbn [enc_ops] in Hf; try discriminate.
  2: { destruct (enc_op (PExp k_ (KAddr 6)) w) as [[? ?]|]; discriminate. }
  destruct w as [|v| | |]; cbn [enc_op] in Hf; try discriminate.
  destruct ((0 <=? v) && (v <? 65536 * 2 ^ 6)) eqn:E; [|discriminate].
  assert (Hr : 0 <= v < 4194304) by lia.
  assert (Hin : In (v / 65536) (zrange 64 0)) by (apply In_zrange; lia).
  assert (forall P, Forall P (zrange 64 0) -> P (v / 65536)) as Hall by (intros P HP; exact (proj1 (Forall_forall _ _) HP _ Hin)).
  destruct Hn as [-> | ->]; destruct c;
    [apply (Hall _ jmp_F (v mod 65536)) | apply (Hall _ jmp_R (v mod 65536))
    | apply (Hall _ call_F (v mod 65536)) | apply (Hall _ call_R (v mod 65536))]; lia.
Qed.

Lemma lds_any ws : fits [PReg d_ RAny; PExp k_ (KAddr 0)] ws = true -> ok_at Full "lds" ws = true.
Proof.
  intros Hf. unfold fits in Hf. destruct ws as [|w0 [|w1 [|w2 ws]]]; cbn [enc_ops] in Hf; try discriminate.
  - destruct (enc_op (PReg d_ RAny) w0) as [[? ?]|]; discriminate.
  - destruct w0 as [d| | | |]; cbn [enc_op] in Hf; try discriminate.
    destruct w1 as [|v| | |]; cbn [enc_op reg_field] in Hf;
      try (destruct ((0 <=? d) && (d <=? 31)); discriminate).
    destruct ((0 <=? d) && (d <=? 31)) eqn:Ed; [|discriminate].
    destruct ((0 <=? v) && (v <? 65536 * 2 ^ 0)) eqn:Ev; [|discriminate].
    assert (Hin : In d (zrange 32 0)) by (apply In_zrange; lia).
    apply (proj1 (Forall_forall _ _) lds_F d Hin). lia.
  - destruct (enc_op (PReg d_ RAny) w0) as [[? ?]|]; [|discriminate].
    destruct (enc_op (PExp k_ (KAddr 0)) w1) as [[? ?]|]; [|discriminate].
    discriminate.
Qed.

Lemma sts_any ws : fits [PExp k_ (KAddr 0); PReg d_ RAny] ws = true -> ok_at Full "sts" ws = true.
Proof.
  intros Hf. unfold fits in Hf. destruct ws as [|w0 [|w1 [|w2 ws]]]; cbn [enc_ops] in Hf; try discriminate.
  - destruct (enc_op (PExp k_ (KAddr 0)) w0) as [[? ?]|]; discriminate.
  - destruct w0 as [|v| | |]; cbn [enc_op] in Hf; try discriminate.
    destruct ((0 <=? v) && (v <? 65536 * 2 ^ 0)) eqn:Ev; [|discriminate].
    destruct w1 as [d| | | |]; cbn [enc_op reg_field] in Hf; try discriminate.
    destruct ((0 <=? d) && (d <=? 31)) eqn:Ed; [|discriminate].
    assert (Hin : In d (zrange 32 0)) by (apply In_zrange; lia).
    apply (proj1 (Forall_forall _ _) sts_F d Hin). lia.
  - destruct (enc_op (PExp k_ (KAddr 0)) w0) as [[? ?]|]; [|discriminate].
    destruct (enc_op (PReg d_ RAny) w1) as [[? ?]|]; [|discriminate].
    discriminate.
Qed.

(** Every spelling, every core it exists on, every operand tuple it admits. *)
Theorem enc_all s c ws :
  In s spellings -> core_ok c (sp_core s) = true -> fits (sp_ops s) ws = true -> ok_at c (sp_name s) ws = true.
Proof.
  intros Hin Hc Hf. destruct (small_sp s) eqn:Hs.
  - exact (check_sp_sound s (small_checked s Hin Hs) Hs c ws Hc Hf).
  - assert (Hb : In s (filter (fun s => negb (small_sp s)) spellings)) by (apply filter_In; rewrite Hs; auto).
    rewrite big_list in Hb. cbn [In] in Hb. destruct Hb as [<- | [<- | [<- | [<- | []]]]]; cbn [sp_name sp_ops sp_core] in *.
    + apply jmp_any; auto.
    + apply jmp_any; auto.
    + destruct c; [apply lds_any; exact Hf | discriminate].
    + destruct c; [apply sts_any; exact Hf | discriminate].
Qed.

(** ---- the position of the instruction: relative operands ---- *)
Lemma rel_of_shift v pc : 0 <= pc -> rel_of (v + (pc + 1)) (Z.to_N pc) = rel_of (v + 1) 0.
Proof. intros H. unfold rel_of. rewrite Z2N.id by lia. replace (v + (pc + 1) - (pc + 1)) with v by lia.
  replace (v + 1 - (Z.of_N 0 + 1)) with v by lia. reflexivity. Qed.

Lemma val_shift_arg d w : v_val (wview (shift_arg d w)) = match v_val (wview w) with Ok v => Ok (v + d) | x => x end.
Proof. destruct w; reflexivity. Qed.
Lemma r8_shift_arg d w : v_r8 (wview (shift_arg d w)) = v_r8 (wview w).
Proof. destruct w; reflexivity. Qed.

Lemma length_shift_last d ws : length (shift_last d ws) = length ws.
Proof. induction ws as [|x [|y r] IH]; cbn [shift_last length] in *; try reflexivity. rewrite IH. reflexivity. Qed.

Lemma arity_fail a op vs pc l : operand_counts op = Some l -> existsb (Nat.eqb (length vs)) l = false ->
  process_v a op vs pc = Err None.
Proof. intros H1 H2. unfold process_v. rewrite H1, H2. reflexivity. Qed.

Lemma bind_assoc {A B C} (m : res A) (g : A -> res B) (f : B -> res C) :
  bind m (fun x => bind (g x) f) = bind (bind m g) f.
Proof. destruct m; reflexivity. Qed.

Lemma rel_bind pc w : 0 <= pc ->
  bind (v_val (wview (shift_arg (pc + 1) w))) (fun k => rel_of k (Z.to_N pc)) =
  bind (v_val (wview (shift_arg 1 w))) (fun k => rel_of k 0).
Proof. intros H. rewrite !val_shift_arg. destruct (v_val (wview w)); try reflexivity. apply rel_of_shift; exact H. Qed.

Lemma rel_shift a op ws pc : 0 <= pc -> rel_op op = true ->
  process_v a op (map wview (shift_last (pc + 1) ws)) (Z.to_N pc) = process_v a op (map wview (shift_last 1 ws)) 0.
Proof.
  intros Hpc Hr.
  assert (Hc : exists l, operand_counts op = Some l /\ (l = [1%nat] \/ l = [2%nat])).
  { destruct op; try discriminate; try destruct b; eexists; split; try reflexivity; auto. }
  destruct Hc as (l & Hl & Hl').
  destruct (existsb (Nat.eqb (length ws)) l) eqn:Har.
  2: { rewrite !(arity_fail a op _ _ l Hl); try reflexivity; rewrite map_length, length_shift_last; exact Har. }
  destruct Hl' as [-> | ->]; cbn [existsb] in Har; rewrite orb_false_r in Har; apply Nat.eqb_eq in Har.
  - destruct ws as [|w0 [|w1 ws]]; try discriminate. cbn [shift_last map].
    destruct op; try discriminate; try (destruct b; try discriminate);
      unfold process_v; cbn [operand_counts length existsb Nat.eqb orb bind arg nth_error];
      rewrite !bind_assoc, (rel_bind pc w0 Hpc); reflexivity.
  - destruct ws as [|w0 [|w1 [|w2 ws]]]; try discriminate. cbn [shift_last map].
    destruct op; try discriminate; try (destruct b; try discriminate);
      unfold process_v; cbn [operand_counts length existsb Nat.eqb orb bind arg nth_error];
      destruct (get_bit_index (v_val (wview w0))); cbn [bind arg nth_error]; try reflexivity;
      rewrite !bind_assoc, (rel_bind pc w1 Hpc); reflexivity.
Qed.

Lemma pc_irrelevant a op vs pc : rel_op op = false -> process_v a op vs pc = process_v a op vs 0.
Proof. destruct op; intros H; try discriminate; reflexivity. Qed.

Lemma at_pc_shift a op ws pc : 0 <= pc ->
  process_v a op (map wview (at_pc pc op ws)) (Z.to_N pc) = process_v a op (map wview (at_pc 0 op ws)) 0.
Proof.
  intros H. unfold at_pc. destruct (rel_op op) eqn:E.
  - apply rel_shift; assumption.
  - apply pc_irrelevant; exact E.
Qed.

Lemma list_eqb_N_eq a : forall b, list_eqb N.eqb a b = true -> a = b.
Proof.
  induction a as [|x a IH]; intros [|y b] H; cbn in H; try discriminate; [reflexivity|].
  apply andb_prop in H. destruct H as [H1 H2]. apply N.eqb_eq in H1. rewrite (IH _ H2), H1. reflexivity.
Qed.
Lemma warg_eqb_eq a b : warg_eqb a b = true -> a = b.
Proof.
  destruct a, b; cbn; intros H; try discriminate; try reflexivity.
  - apply Z.eqb_eq in H. congruence.
  - apply Z.eqb_eq in H. congruence.
  - apply idxf_eqb_eq in H. congruence.
  - apply andb_prop in H. destruct H as [H1 H2]. apply eqb_prop in H1. apply Z.eqb_eq in H2. congruence.
Qed.
Lemma list_eqb_warg_eq a : forall b, list_eqb warg_eqb a b = true -> a = b.
Proof.
  induction a as [|x a IH]; intros [|y b] H; cbn in H; try discriminate; [reflexivity|].
  apply andb_prop in H. destruct H as [H1 H2]. rewrite (IH _ H2), (warg_eqb_eq _ _ H1). reflexivity.
Qed.
Lemma stmt_eqb_eq a b : stmt_eqb a b = true -> a = b.
Proof.
  destruct a as [[n w]|], b as [[n' w']|]; cbn; intros H; try discriminate.
  apply andb_prop in H. destruct H as [H1 H2]. apply String.eqb_eq in H1. apply list_eqb_warg_eq in H2. congruence.
Qed.

(** C01, operand values as the accessors deliver them, any instruction address *)
Theorem encode_correct (c : core) (s : spelling) (fuel : nat) (cx : ctx) (args : list iop) (ws : list warg) (pc : Z) :
  In s spellings -> core_ok c (sp_core s) = true -> is_avr8l (dev cx) = isred c ->
  fits (sp_ops s) ws = true -> 0 <= pc ->
  map (view_of fuel cx) args = map wview (at_pc pc (op_of (sp_name s)) ws) ->
  exists words, expect c (sp_name s) ws = Some words /\
    process fuel cx (op_of (sp_name s)) args (Z.to_N pc) = Ok (bytes_of words) /\
    (dec_exempt c (sp_name s) ws = false -> decode c words = canon_norm (sp_name s) ws).
Proof.
  intros Hin Hc Hd Hf Hpc Hv.
  pose proof (enc_all s c ws Hin Hc Hf) as Hok. unfold ok_at in Hok.
  destruct (expect c (sp_name s) ws) as [words|] eqn:He; [|discriminate].
  apply andb_prop in Hok. destruct Hok as [Hb Hdec].
  exists words. split; [reflexivity|]. split.
  - unfold process. rewrite Hd, Hv, at_pc_shift by exact Hpc.
    unfold res_bytes_eqb in Hb. destruct (process_v _ _ _ _) as [x| | |]; try discriminate.
    f_equal. apply list_eqb_N_eq. exact Hb.
  - intros Hex. rewrite Hex in Hdec. cbn [orb] in Hdec. apply stmt_eqb_eq. exact Hdec.
Qed.

(** ---- what makes an operand "denote" a written value: sufficient conditions for the view equation ---- *)
Lemma view_reg fuel cx n : view_of fuel cx (OR8 n) = wview (WReg (Z.of_N n)).
Proof. unfold view_of, wview. cbn. rewrite N2Z.id. reflexivity. Qed.
Lemma view_alias fuel cx name n : get_def cx name = Some n -> run fuel cx (EIdent name) = Err None ->
  view_of fuel cx (OE (EIdent name)) = wview (WReg (Z.of_N n)).
Proof. intros H1 H2. unfold view_of, wview. cbn [get_r8 get_val get_index]. rewrite H1, H2, N2Z.id. reflexivity. Qed.
Lemma view_expr fuel cx e v : run fuel cx e = Ok v -> get_r8 cx (OE e) = Err None ->
  view_of fuel cx (OE e) = wview (WExp v).
Proof. intros H1 H2. unfold view_of, wview. cbn [get_val get_index]. rewrite H1, H2. reflexivity. Qed.
Lemma view_idx fuel cx f : view_of fuel cx (OIndex (match idx_view f with VNone r => INone r | VPostInc r => IPostInc r | VPreDec r => IPreDec r | VDisp r _ => INone r end)) = wview (WIdx f).
Proof. destruct f; reflexivity. Qed.
Lemma view_disp fuel cx (y : bool) e q : run fuel cx e = Ok q ->
  view_of fuel cx (OIndex (IPostIncE (if y then RY else RZ) e)) = wview (WIdxQ y q).
Proof. intros H. unfold view_of, wview. cbn [get_r8 get_val get_index]. rewrite H. reflexivity. Qed.

(** ---- C03: a target outside the displacement field is rejected ---- *)
Definition rel_bits (o : operation) : Z := match o with ORjmp | ORcall => 12 | _ => 7 end.

Lemma rel_reject a op vs0 t pc : rel_op op = true -> 0 <= pc ->
  ~ (- 2 ^ (rel_bits op - 1) <= t - (pc + 1) < 2 ^ (rel_bits op - 1)) ->
  is_ok (process_v a op (vs0 ++ [wview (WExp t)]) (Z.to_N pc)) = false.
Proof.
  intros Hr Hpc Hout.
  assert (R : forall f : Z -> res (N * option N),
             (forall rel, (- 2 ^ (rel_bits op - 1) <= rel < 2 ^ (rel_bits op - 1)) \/ is_ok (f rel) = false) ->
             is_ok (bind (bind (rel_of t (Z.to_N pc)) f) (fun r => let '(w, w2) := r in
                Ok ([w mod 256; w / 256] ++ match w2 with Some x => [x mod 256; x / 256] | None => [] end)%list)%N) = false).
  { intros f Hf. unfold rel_of. rewrite Z2N.id by lia. destruct (in_i64 (t - (pc + 1))); [|reflexivity].
    cbn [bind]. destruct (Hf (t - (pc + 1))) as [H | H]; [contradiction|].
    destruct (f (t - (pc + 1))); try discriminate; reflexivity. }
  destruct op; try discriminate; try destruct b;
    (destruct vs0 as [|v0 [|v1 [|v2 vs0]]]; cbn [app];
     unfold process_v; cbn [operand_counts length existsb Nat.eqb orb bind arg nth_error app]; try reflexivity);
    try (destruct (get_bit_index (v_val v0)); cbn [bind arg nth_error]; try reflexivity);
    cbv beta iota; cbn [wview v_val bind arg nth_error];
    (apply R; intros rel; cbn [rel_bits];
     match goal with |- _ \/ is_ok (if ?c then _ else _) = false => destruct c eqn:E; [right; reflexivity | left; lia] end).
Qed.

Lemma shift_last_snoc d pre v : shift_last d (pre ++ [WExp v])%list = (pre ++ [WExp (v + d)])%list.
Proof.
  induction pre as [|x pre IH]; [reflexivity|]. cbn [app].
  change (shift_last d (x :: (pre ++ [WExp v])%list)) with
    (match (pre ++ [WExp v])%list with [] => [shift_arg d x] | _ => x :: shift_last d (pre ++ [WExp v])%list end).
  rewrite IH. destruct (pre ++ [WExp v])%list eqn:E; [destruct pre; discriminate | reflexivity].
Qed.

Definition rel_spellings : list spelling := filter (fun s => rel_op (op_of (sp_name s))) spellings.
Lemma rel_spellings_core_b :
  forallb (fun s => core_ok Full (sp_core s) && core_ok Reduced (sp_core s)) rel_spellings = true.
Proof. vm_compute. reflexivity. Qed.
Lemma rel_spellings_core s c : In s rel_spellings -> core_ok c (sp_core s) = true.
Proof.
  intros H. pose proof (proj1 (forallb_forall _ _) rel_spellings_core_b s H) as Hb.
  apply andb_prop in Hb. destruct c; tauto.
Qed.

Lemma dec_exempt_rel c name w : rel_op (op_of name) = true -> dec_exempt c name w = false.
Proof. unfold dec_exempt, op_of. destruct c; [reflexivity|]. destruct (operation_of_name _); try discriminate; reflexivity. Qed.

(** C03, reachable half: instance of [encode_correct] for the relative spellings *)
Theorem branch_reachable (c : core) (s : spelling) (fuel : nat) (cx : ctx) (args : list iop) (pre : list warg) (t pc : Z) :
  (In s spellings /\ rel_op (op_of (sp_name s)) = true) -> is_avr8l (dev cx) = isred c -> 0 <= pc ->
  fits (sp_ops s) (pre ++ [WExp (t - (pc + 1))])%list = true ->
  map (view_of fuel cx) args = map wview (pre ++ [WExp t])%list ->
  exists words, process fuel cx (op_of (sp_name s)) args (Z.to_N pc) = Ok (bytes_of words) /\
    decode c words = canon_norm (sp_name s) (pre ++ [WExp (t - (pc + 1))])%list.
Proof.
  intros [Hin Hrel] Hd Hpc Hf Hv.
  assert (Hrs : In s rel_spellings) by (apply filter_In; auto).
  pose proof (fun c => rel_spellings_core s c Hrs) as Hcore.
  assert (Hat : at_pc pc (op_of (sp_name s)) (pre ++ [WExp (t - (pc + 1))])%list = (pre ++ [WExp t])%list).
  { unfold at_pc. rewrite Hrel, shift_last_snoc. do 3 f_equal. lia. }
  destruct (encode_correct c s fuel cx args (pre ++ [WExp (t - (pc + 1))])%list pc Hin (Hcore c) Hd Hf Hpc) as (words & He & Hp & Hdec).
  { rewrite Hat. exact Hv. }
  exists words. split; [exact Hp|]. apply Hdec.
  apply dec_exempt_rel. exact Hrel.
Qed.

(** C04: the value guards reject everything outside their field (all of Z) *)
Lemma guards_reject (v : Z) :
  ((v < -128 \/ 255 < v) -> get_byte (Ok v) = Err None) /\
  (forall mx, (mx <= 127)%N -> (v < 0 \/ Z.of_N mx < v) -> small_field mx (Ok v) = Err None) /\
  ((v < 0 \/ 7 < v) -> get_bit_index (Ok v) = Err None).
Proof.
  split; [|split].
  - intros H. unfold get_byte, byte_of. cbn [bind]. destruct ((255 <? v) || (v <? -128)) eqn:E; [reflexivity | lia].
  - intros mx Hmx H. unfold small_field, get_byte, byte_of. cbn [bind].
    destruct ((255 <? v) || (v <? -128)) eqn:E; [reflexivity|]. cbn [bind].
    destruct ((127 <? Z.to_N (v mod 256))%N || (mx <? Z.to_N (v mod 256))%N) eqn:E2; [reflexivity|].
    exfalso. assert (-128 <= v <= 255) by lia.
    assert (Hc : (Z.to_N (v mod 256) <= 127)%N /\ (Z.to_N (v mod 256) <= mx)%N) by lia.
    destruct Hc as [H1 H2]. apply N2Z.inj_le in H1, H2. rewrite Z2N.id in H1, H2 by (apply Z.mod_pos_bound; lia).
    change (Z.of_N 127) with 127 in H1.
    destruct (Z.lt_ge_cases v 0).
    + rewrite <- (Z.mod_unique v 256 (-1) (v + 256)) in H1 by lia. lia.
    + rewrite Z.mod_small in H2 by lia. lia.
  - intros H. unfold get_bit_index, bit_of. cbn [bind]. destruct ((v <? 0) || (7 <? v)) eqn:E; [reflexivity | lia].
Qed.
