(** C11 - including a file is the same as pasting it, and files are found where documented. *)
From Coq Require Import List ZArith NArith String.
Import ListNotations.
Require Import AvraV.Model.Base AvraV.Model.Ast AvraV.Model.Fs AvraV.Model.Parse AvraV.Model.Passes AvraV.Model.Files.
Example C11_components :
  components (lit "./a//b/./c") = [CCur; CNorm (lit "a"); CNorm (lit "b"); CNorm (lit "c")] /\
  components (lit "//x/../y/") = [CRoot; CNorm (lit "x"); CParent; CNorm (lit "y")] /\
  parent (components (lit "main.asm")) = Some [] /\ parent (components (lit "/")) = None.
Proof. vm_compute. repeat split; reflexivity. Qed.
